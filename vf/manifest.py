"""Generates /verif/MANIFEST.json from the table below (python3 -m vf.manifest)."""
import json
import os
import sys

ROOT = os.path.dirname(os.path.dirname(os.path.abspath(__file__)))

BASELINE = ("cd /repo && env -u JESSE_VERIF /venv/bin/python -m pytest -ra -q -p no:cacheprovider --timeout=900 "
            "--continue-on-collection-errors")

# id -> (engine, technique, level text, level_note, design_ref)
CHECKS = {
    'C18': ('opseq', 'explicit-state BFS over operation histories on the real DynamicNumpyArray, list reference model compared in every state',
            'All operation histories up to the stated depth over bucket sizes 2,3,4,10 (with/without drop_at) are executed on the real class; '
            'states are merged on (index, capacity, bucket size, stale-tail pattern); in every state every index and every slice bound in range '
            'and one beyond is compared with a Python list. Exhaustive within the bound, which is where capacity/offset bugs live.',
            'Rows are 2-column floats; row values do not influence control flow. Bound: depth 8 (quick) / 14 (thorough).', 'DESIGN.md 3/C18'),
    'C04': ('opseq', 'explicit-state BFS over submit/execute/cancel histories on the real spot exchange, exact cash-account reference compared in every state',
            'Every history of buy/sell MARKET/LIMIT/STOP submissions, executions and cancellations up to the stated depth (<=3 live orders, decimal '
            'quantities, fee rates, sells of all/half/fixed size) runs on the real SpotExchange/Position/Order objects with the real strategy close path; '
            'in every reached state balances, position size, live orders and every accept/reject verdict are compared with an exact rational cash account.',
            'Sells are reduce-only as the strategy layer submits them; verdicts within 1e-9 of a threshold and last-bit dust are dont-care. Depth 5 quick / 6 thorough.',
            'DESIGN.md 3/C04'),
    'C03': ('opseq', 'explicit-state BFS over submit/execute/cancel/mark histories on the real futures exchange (1-2 symbols, one wallet), exact average-cost margin account compared in every state',
            'Every history over long/short, market/limit/stop, reduce-only, oversize reductions, flips, price marks, submit+cancel probes and 9/10/11-order ladders (margin table '
            'bucket boundary) up to the stated depth runs on the real FuturesExchange/Position/Order objects with the real strategy close path; wallet, size, entry, uPnL, '
            'available margin, live orders and every accept/reject verdict are compared with an exact rational reference in every state.',
            'Reduce-only orders only on the closing side of an open position; verdicts within 1e-9 of the threshold are dont-care. Depth 4-5 quick / 5-6 thorough, <=2-3 live orders.',
            'DESIGN.md 3/C03'),
    'C05': ('opseq', 'explicit-state BFS over order life-cycle histories (submit, execute, cancel, repeated calls on final orders, cancel-all, market-queue flush, update-active) on the real registries, 3-state life-cycle model compared in every state',
            'Every such history up to the stated depth, spot and futures, runs on the real Order/OrdersState/Sandbox/ClosedTrades objects; in every state each order status '
            'equals the model (one terminal step, frozen afterwards), count_active_orders equals the non-final orders, update_active_orders leaves exactly those, every executed '
            'order sits in exactly one trade, and a call on a final order must leave the whole canonical state (balances, margin tables, positions, trades) identical.',
            'Account comparison of C03/C04 stays on. Depth 4-5 quick / 5-6 thorough, <=3 live orders. The simulator-made duplicate calls are additionally monitored in the session checks.',
            'DESIGN.md 3/C05'),
    'C17': ('lattice', 'complete enumeration of input lattices against exact rational references, plus end-to-end order acceptance on real spot/futures exchange objects',
            'size_to_qty / risk_to_qty / limit_stop_loss over 12 capitals x prices m*10^e x 5 fee rates x precisions 0..8, decimal helpers over all i/10^d pairs and float neighbours, '
            'live rounding over precisions -2..8, the timeframe tables for every timeframe and max_timeframe for all 2^17-1 subsets are enumerated completely and compared with '
            'exact Fractions; every near-the-limit sized quantity is submitted to a fresh real account holding the capital.',
            'A statement about the enumerated lattice, not about all reals; money comparisons carry a 1e-9 relative band, acceptance/decimal/rounding/tables are exact.',
            'DESIGN.md 3/C17'),
    'C19': ('lattice', 'complete enumeration of the DNA alphabet x positions x declarations, plus all defaults/dna()/explicit combinations through real research.backtest sessions',
            'All 80 letters at two positions against 9 declarations (all 80x80 gene pairs at position 0) are decoded with the real dna_to_hp and checked for range, type, own-gene '
            'dependence, monotonicity, end points and linearity; 112 real backtests cover every combination of declared defaults, dna() and explicit hyperparameters in both simulators '
            'with one and two routes in both orders, the strategies recording self.hp.',
            'Declarations are those listed in the evidence bounds; the alphabet is read from Optimizer.__init__.', 'DESIGN.md 3/C19'),
    'C20': ('opseq', 'complete enumeration of gap patterns for _fill_absent_candles + explicit-state BFS over add_candle / add_multiple_1m_candles histories on the real CandlesState against a dict keyed by timestamp',
            'Every non-empty presence pattern of every interval of up to 8 (quick) / 11 (thorough) minutes is filled by the real function and compared field by field; every history of new / repeated / '
            'older (previous, 3 back, second, oldest, unknown) candles and next / same / partly overlapping batches on 1m and 5m storages with tiny buckets (and a 25-candle pre-filled store) is executed and the '
            'stored series compared with the reference in every state; research.backtest spacing validation over a menu of leading gaps.',
            'Candle values never influence control flow, states are merged on timestamps and capacity. For an unknown older timestamp only ordering and integrity of the other candles are demanded.',
            'DESIGN.md 3/C20'),
    'C02': ('session', 'exhaustive enumeration of whole research.backtest sessions (all candle words over a shape alphabet x program menu x spot/futures x normal/fast) with a trace oracle',
            'Every candle word (gaps, flats, wicks exactly on order prices) after a flat lead-in, for each of 7 scripted programs (limit/stop/market/multi-leg entries, exit ladders, break-even moves, '
            'kept/cancelled entries), spot and futures, normal and fast simulator, runs through the real research.backtest under harness monitors; from the trace alone every resting fill is checked '
            'against the normalised range of its minute and its submission time, every order that survives a matching phase (minute / fast-mode chunk) against that phase\'s range, every market order against '
            'same-step execution at the current price, and every fill against its position-size effect; the C05 life-cycle clauses are evaluated on every order too.',
            'Bound: word length 4 over 6 shapes (quick) / 5 over 8 shapes (thorough), one symbol, 1m normal and 3m fast chunks. Orders created while a minute is matched are exempt in that minute (C08).',
            'DESIGN.md 3/C02'),
    'C08': ('session', 'complete enumeration of split_candle inputs on a 5-level lattice + exhaustive probe-minute sessions (all O/H/L/C/previous-close arrangements x exit-order placements x reaction policies) with a path-walk oracle',
            'split_candle is called on every valid lattice candle and every lattice/half-step price inside it and the two parts checked for validity, kept extremes and meeting point; a probe minute with every '
            'arrangement of open/high/low/close around the previous close is run through the real simulator with 1-3 exit orders on lattice and half-step prices (ties, prices on O/H/L/C), long and short, '
            'with reaction policies that move or place orders after a partial fill; the observed sequence of Order.execute calls in the minute must be a monotone walk along the path, reaction orders '
            'only after their creation point, and nothing the path reached earlier may still be waiting when a later order fills.',
            'Normal simulator only (the property is stated for it). 225 probe candles, up to 66 programs, both sides; ties may fill in any order.', 'DESIGN.md 3/C08'),
    'C12': ('session', 'exhaustive differential enumeration: every session of the space is run in both simulators (research.backtest fast_mode False/True) and the traces compared',
            'All minute words / block words (at most one tick per minute) x entry styles (market, limit, stop; long and short) with exits spaced timeframe+3 ticks x trading timeframes 1m..1h x data routes '
            '(none, larger, smaller timeframe) x spot/futures are executed twice; whenever the normal run satisfies the precondition (<=1 resting fill per trading-candle span, no liquidation) the executed '
            'orders with fill minute, the closed trades and the final balances must be identical.',
            'Session lengths are multiples of every route timeframe. Sessions failing the precondition are counted as ambiguous, not compared.', 'DESIGN.md 3/C12'),
    'C01': ('session', 'exhaustive enumeration of sessions with a prefix-trie hyperproperty oracle: every run is compared with every other run that shares a candle prefix, at every cut point',
            'All candle words x programs x configurations (spot/futures, trading timeframes 1m..15m, larger and smaller data-route timeframes, one and two symbols with cross-reads, warm-up on/off, both simulators) '
            'run with full observation: every hook logs price, position, balance, margin, active orders and a digest of every candle array it can read. For every cut minute the digest of all observable events '
            'up to that simulated time is filed under the candle prefix; all runs that share the prefix must agree, i.e. every replacement tail of the lattice at every cut point.',
            'Words have equal length; fast-simulator cuts on trading-candle boundaries only. Candle-store insert events are inputs, not observations.', 'DESIGN.md 3/C01'),
    'C07': ('session', 'exhaustive enumeration of sessions (timeframe pairs x length remainder x mid-window fill offset x simulator x symbols x warm-up) with an in-session oracle at every hook, plus complete enumeration of the candle helpers',
            'At every strategy hook of every session every candle array the strategy can read (all route symbols and timeframes) is compared with the reference aggregation of the 1m candles stored at that moment - '
            'one row per started aligned window, forming row included - and current_candle with its last row; after the run the store is compared with the (gap-normalised) input. Sessions cover every remainder '
            'of the length modulo the route timeframes, a fill at every minute offset of a window, one and two symbols, warm-up injection and both simulators for timeframe pairs up to 15m, and every supported '
            'timeframe up to 4h (quick) / 1D (thorough) as trading and as data route. The helpers generate_candle_from_one_minutes, _get_generated_candles and inject_warmup_candles_to_store are enumerated for all 17 timeframes.',
            'Session starts and warm-up lengths are aligned to every route timeframe (lcm), as the property assumes.', 'DESIGN.md 3/C07'),
    'C06': ('session', 'exhaustive enumeration of sessions (all candle words x program menu x fee x leverage x spot/futures x simulator) with a reference position automaton replaying the fills of the trace',
            'Programs cover multi-point entries, partial take-profits with a full-size stop, stops resized or moved to break-even after reductions, liquidate(), a forced flip and a position still open '
            'at session end; for every session the fills of the trace are replayed through a reference automaton and the hook sequence (open, increases/reductions, close - each once), the position size seen '
            'in each hook, every closed trade (side, quantity, quantity-weighted entry and exit, times, order list), the identity sum(trade PnL) == wallet change and net_profit == finishing - starting balance are compared.',
            'Word length 4 over 6 shapes (quick) / 5 over 8 (thorough); spot sessions use fee 0 so fixed-size exit ladders equal the holding.', 'DESIGN.md 3/C06'),
    'C09': ('session', 'complete enumeration of the price formulas for leverage 1..125 + exhaustive product of liquidation scenarios (leverage x side x entry averaging x approach/touch/cross/gap relative to the liquidation price x distance x protective stop x account mode x simulator) with a trace oracle',
            'The formulas are evaluated on real Position objects for every leverage 1..125, both sides, three entries (liquidation strictly between entry and bankruptcy price; none in cross/spot). '
            'Every scenario is run twice: a calibration run reads the position\'s own liquidation/bankruptcy price, then the probe candle is placed one tick short of / exactly on / one tick beyond / gapping over it. '
            'From the trace alone: after every matching phase (minute or fast-mode chunk) an open position whose phase range contains the liquidation price must be force-closed at once by exactly one reduce-only market fill '
            'of the whole position at the bankruptcy price, counted in total_liquidations, losing initial margin plus fees, with nothing left active; any other force-close is spurious; none in cross or spot.',
            'tick = entry*1e-4; leverages {1,2,5,25,125} quick / 10 values thorough.', 'DESIGN.md 3/C09'),
    'C10': ('session', 'exhaustive enumeration of declaration scenarios (site x rows x price relation around the 0.015 percent boundary x side x modification scripts) through real backtests with a trace oracle',
            'Every scenario declares entries/exits in go_long/go_short, on_open_position, update_position (all ordered pairs of 7 modifications followed by a return to the first declaration), on_reduced_position '
            'or via liquidate(), with prices at relations 0, +-1e-7, +-(0.015% -+ 1e-7), +-1%, +-5% to the current price, long and short, futures and spot. From the trace: every submitted order has the type its '
            'price relation prescribes, the declared quantity and price, exits are reduce-only and on the closing side; after every strategy step the active stop-loss/take-profit orders map injectively into '
            'the rows of the latest declaration, none remains once the position is closed; resting entries are cancelled exactly when should_cancel_entry() answered yes.',
            'Flat candles, so only routing decides what fills. Within 1e-9 of the threshold either type is accepted.', 'DESIGN.md 3/C10'),
    'C13': ('lattice', 'exhaustive enumeration of a candle-word tree (one-step-extension check on every edge) and of every prefix cut of structured stems, for every sequential indicator and parameter variant',
            'For each of the 168 indicators that return a series: (i) all words over 3 candle shapes up to depth 6 (quick) / 8 (thorough) with small-window parameters - every tree edge compares f(w.a)[:len(w)] with f(w), '
            'which by transitivity is the full prefix property for every word and cut; (ii) six structured 300-candle stems with default, alternative-window and non-default source parameters - the series on every prefix '
            'k is compared with the prefix of the series on the whole input. Each indicator runs in its own forked child, so native crashes of numba kernels on short inputs are recorded instead of killing the run.',
            'NaN-aware comparison, relative tolerance 1e-9; minmax exempt in its last `order` positions. Indicators are discovered by introspection; anything not callable is listed as uncovered in the evidence.', 'DESIGN.md 3/C13'),
    'C14': ('lattice', 'exhaustive enumeration of indicator x parameter variant x source type x input length (below/at/above the 240 warm-up window) x stem against the three agreement clauses',
            'All 174 public indicators with default, small-window and alternative-window parameters and every accepted source type are evaluated on lengths 100..480 around the warm-up window: every sequential field has one '
            'entry per candle; up to the window the last sequential entry equals the non-sequential result; beyond it the non-sequential result equals the sequential result on the trailing 240 candles.',
            'Clause (b) is demanded up to the warm-up window only (beyond it the non-sequential path slices, and (c) applies). Tolerance 1e-9 relative.', 'DESIGN.md 3/C14'),
    'C15': ('lattice', 'exhaustive enumeration of period x source type x series menu (+ all candle words of length 8 for periods 2, 3) against independent reference implementations written from the textbook definitions',
            'About 40 core indicators (moving averages, RSI, ATR/NATR, MACD, Bollinger/Keltner/Donchian, stochastic, CCI, ROC family, momentum, OBV, Williams %R, MFI, ADX/DI/DM, standard deviation, price transforms) '
            'are compared with plain reference implementations: window functions exactly, recursive smoothers in their recurrence step on their own output and in value once the seed has decayed below 1e-12; '
            'ma(matype=k) against the k-th moving average for every supported matype, sequential and not; ranges, band ordering, channel enclosure, non-negativity and price homogeneity on every series.',
            'Periods 2..60 (quick: 2,3,5,14,30,60), 8 source types (quick 3), series: constant, monotone up/down, alternating, walk, x1e6, x1e-6.', 'DESIGN.md 3/C15'),
    'C16': ('lattice', 'exhaustive enumeration of trade-kind sequences and daily-return words through the real metrics.trades() on real ClosedTrade objects, plus exhaustive product of multi-day sessions with an independent equity oracle at every sample',
            'Every sequence of up to 3 (quick) / 5 (thorough) trades over {win, loss, break-even} x {long, short} (+ all-wins, all-losses, break-even only, a 400/2000-trade list) at two fee rates and every word of up to 5 daily '
            'returns over {-10%, 0, +5%, +10%} is evaluated; all identities of the statement and max drawdown, CAGR, Sharpe, Sortino, Calmar, Omega recomputed from their definitions. Sessions of 1440k+r minutes, spot and futures, '
            'one route and two routes in both orders, holding a position / a resting entry order / nothing across midnight: every equity sample is compared with wallet + unrealised PnL (futures) or free + reserved quote + base value (spot).',
            'Streak metrics are bounded between the strict run length and the run length that absorbs break-even trades.', 'DESIGN.md 3/C16'),
    'C11': ('opseq', 'exhaustive enumeration of call histories (earlier sessions x probe, including sessions that abort with an exception) each in its own forked process, compared with the probe in a fresh process',
            'Alphabet: 17 sessions - a base futures session, one variant per argument dimension (exchange name, spot, leverage, isolated mode, fee, balance, symbol, timeframe + data route, fast mode, warm-up, program, '
            'two routes) and four fault variants (hook raising at the first fill / mid-session / at the end, margin rejection). Every history of one (quick) or two (thorough) earlier sessions followed by each probe runs in '
            'its own process WITHOUT the harness\'s reset of process-wide state; the probe\'s metrics, full trace of orders and hooks, trades and balances must equal the fresh-process result, the same call twice must agree, '
            'and config / routes / data_routes / candle arrays must be unchanged after the call.',
            'Fresh process = forked from a parent that imported jesse but never ran a session. Thorough depth 2 keeps all ordered pairs of different earlier sessions before 4 probes.', 'DESIGN.md 3/C11'),
}

NOT_APPLICABLE = {}


# what the driver / oracle of a check gained after its first version (the level text above describes the first version)
EXTENDED = {
    'C01': 'two-symbol fast configurations in the quick tier.',
    'C02': '13 programs incl. fill handlers that submit market orders, never re-declared exits, near-market exits and a second route that reacts to the first route\'s fills; doji and flat shapes; micro/huge price scales; clauses for later minutes of a chunk, market-overtaken and fill-before-submission by the session clock.',
    'C03': 'decimal and full-precision quantity configurations (exact-binary reference), every scalar attribute of exchange and positions in the canonical key.',
    'C04': 'search also started from non-initial states (holding with a ladder of resting exits), a sell-the-free-remainder operation, non-reduce-only sells, verdicts exactly at the threshold.',
    'C05': 'end-of-step active-list rule and two-route sessions; every order snapshotted when it becomes final and compared at session end.',
    'C06': 'isolated high-leverage, two-symbol and micro/huge-scale configurations; programs that scale back in or liquidate from a fill handler; doji words.',
    'C07': 'gapping opens in the session words; liquidation, near-market and second-symbol-only session modes.',
    'C08': 'MARKET reactions (liquidate, scale back in) as points on the path; clause path-missed at the end of every minute.',
    'C09': 'non-perturbing oracle (entry price followed through the fills, prices looked up in calibration readings); partial exits inside the probe minute; increase and partial exit inside one minute; micro/huge scales.',
    'C10': 'duplicate, uneven and withdrawn (empty) declarations, nudged modifications, re-trade scenarios, liquidate() after an equal filled exit; micro/huge scales.',
    'C11': 'strategies log a non-sequential indicator and read/write shared_vars; configured warm-up number; arguments of a call re-compared after the following call.',
    'C12': 'fill handlers that submit market orders, candle-shape and 1m-candle-colour entries, kept entries, trailing stops; non-dividing timeframe pairs, trailing remainder minutes, isolated 50x, micro/huge scales.',
    'C13': 'no-trade, ramp and zero-volume-start stems, volume source, pairs of full-length series that share their first 1..19 candles, reversed-window and exotic smoothing variants.',
    'C14': 'large (40+) and huge (90+) windows, recursive matype variants, inputs exactly as long as the largest window, scalar sequential results reported.',
    'C15': 'gappy and huge-price/small-move series, long inputs (5000; 4097/5000/20000 thorough), stochastic %D / slow %K lines incl. EMA smoothing, var, selector on 1-D input, two-pass deviation reference.',
    'C16': 'short programs, route timeframes 15m / 4h / 1D / 3D in both simulators.',
    'C17': 'violation signatures carry whether the float cost exceeds the capital (the recorded finding) or not.',
    'C18': 'negative delete indices, empty batches, clamped slice-assignment bounds, drop-limit clause, every attribute in the canonical key.',
    'C19': 'degenerate ranges next to ordinary ones, zero genes, every letter through dna() of a real backtest, range and end points without tolerance.',
    'C20': 'pages running past the interval and listed newest-first / with a late row; whole-session store invariants (warm-up, shared pair, both simulators).',
}


def build():
    checks = []
    for pid in sorted(CHECKS):
        eng, tech, text, note, ref = CHECKS[pid]
        if pid in EXTENDED:
            note = note + ' Extended after the seeded-change rounds and audits (DESIGN.md 5, 5.1): ' + EXTENDED[pid]
        checks.append({
            'property_id': pid,
            'quick_cmd': './check %s --tier quick' % pid,
            'thorough_cmd': './check %s --tier thorough' % pid,
            'evidence_file': '/verif/evidence/%s.json' % pid,
            'replay_cmd_template': './check %s --replay {path}' % pid,
            'engine': eng,
            'level_claimed': {'category': 'model_checking', 'text': text, 'design_ref': ref},
            'level_note': note,
            'technique': tech,
        })
    allp = [json.loads(l)['id'] for l in open(os.path.join(ROOT, 'properties.jsonl'))]
    na = []
    for pid in allp:
        if pid not in CHECKS:
            na.append({'property_id': pid, 'reason': NOT_APPLICABLE.get(pid, 'check not built yet in this round (planned, see DESIGN.md section 3); not claimed until it runs clean')})
    return {
        'version': 1,
        'setup_cmd': 'cd /verif && ./setup.sh',
        'hooks': {
            'guard': 'JESSE_VERIF',
            'enable': 'none needed: all observation is done by harness-side wrappers installed at import time inside the check workers; JESSE_VERIF=1 is exported by ./check for form only',
            'baseline_off_cmd': BASELINE,
            'source_commits': [],
            'add_only': True,
        },
        'engines': [
            {'name': 'opseq', 'path': 'vf/checks', 'serves_properties': [p for p in sorted(CHECKS) if CHECKS[p][0] == 'opseq'],
             'kind_free_text': 'explicit-state breadth-first search over operation histories on real jesse objects, reference model compared in every state'},
            {'name': 'session', 'path': 'vf/session', 'serves_properties': [p for p in sorted(CHECKS) if CHECKS[p][0] == 'session'],
             'kind_free_text': 'exhaustive enumeration of whole research.backtest sessions (config x program x candle word) with harness-side monitors'},
            {'name': 'lattice', 'path': 'vf/checks', 'serves_properties': [p for p in sorted(CHECKS) if CHECKS[p][0] == 'lattice'],
             'kind_free_text': 'exhaustive enumeration of function inputs on a finite lattice / word tree against a reference written from the definition'},
        ],
        'checks': checks,
        'not_applicable': na,
        'notes': 'All checks drive the real jesse code from /repo (editable install in /venv) outside pytest; see DESIGN.md.',
    }


if __name__ == '__main__':
    m = build()
    with open(os.path.join(ROOT, 'MANIFEST.json'), 'w') as f:
        json.dump(m, f, indent=1)
        f.write('\n')
    print('checks:', len(m['checks']), 'not_applicable:', len(m['not_applicable']))
