"""
Audit C18 - DynamicNumpyArray vs. a plain list of rows.
Run:  cd /tmp/wta_C18 && /venv/bin/python audit_C18.py
Exits 1 (and explains) when at least one violation of the property is observed, 0 otherwise.
"""
import sys
import warnings

warnings.filterwarnings('ignore')

import numpy as np
from jesse.libs.dynamic_numpy_array import DynamicNumpyArray


def row(k):
    return np.array([float(k), float(-k)])


def make(n, bucket=3, drop_at=None):
    a = DynamicNumpyArray((bucket, 2), drop_at=drop_at)
    model = []
    for k in range(1, n + 1):
        a.append(row(k))
        model.append(k)
    return a, model


def content(a):
    return [int(a[i][0]) for i in range(len(a))]


violations = []


def report(tag, text):
    violations.append(tag)
    print(f'[VIOLATION {tag}] {text}')


# V1 - deletion with a negative index removes the wrong row -----------------------------------
a, m = make(4)
a.delete(-2, axis=0)
del m[-2]
if content(a) != m:
    report('V1', f'rows 1..4, delete(-2, axis=0): array holds {content(a)}, list model `del l[-2]` holds {m}')

# V2 - deletion with the default arguments destroys the row structure ---------------------------
a, m = make(4)
del m[1]
try:
    a.delete(1)  # signature: delete(self, index, axis=None)
    got = content(a)
    if got != m:
        report('V2', f'rows 1..4, delete(1): array holds {got}, list model `del l[1]` holds {m}')
except Exception as e:
    report('V2', f'rows 1..4, delete(1) then reading a[0][0]: {type(e).__name__}: {e} '
                 f'(storage is now {a.array.ndim}-D with shape {a.array.shape}); list model holds {m}')

# V3 - bulk append of zero rows on an empty array with the drop-oldest option -------------------
a = DynamicNumpyArray((3, 2), drop_at=4)
a.append_multiple(np.zeros((0, 2)))  # list.extend([]) : no-op
try:
    n = len(a)
    if n != 0:
        report('V3', f'empty array (drop_at=4), append_multiple(0 rows): len() == {n}, list model 0')
except Exception as e:
    report('V3', f'empty array (drop_at=4), append_multiple(0 rows): index={a.index}, len() raises '
                 f'{type(e).__name__}: {e}; list model: extend([]) leaves an empty list, len == 0')

# V4 - equal-length slice assignment whose bounds a list would clamp ----------------------------
a, m = make(3, bucket=10)
new = np.array([row(8), row(9)])
m[1:100] = [8, 9]  # list: slice 1:100 of a 3-list selects 2 rows -> equal length, valid
try:
    a[1:100] = new
    if content(a) != m:
        report('V4a', f'rows 1..3, a[1:100] = 2 rows: array holds {content(a)}, list model {m}')
except Exception as e:
    report('V4a', f'rows 1..3, a[1:100] = 2 rows raises {type(e).__name__}: {e}; list model gives {m}')

a, m = make(3, bucket=10)
m[-5:2] = [8, 9]  # list: start clamps to 0 -> selects 2 rows -> equal length, valid
try:
    a[-5:2] = new
    if content(a) != m:
        report('V4b', f'rows 1..3, a[-5:2] = 2 rows: array holds {content(a)}, list model {m}')
except Exception as e:
    report('V4b', f'rows 1..3, a[-5:2] = 2 rows raises {type(e).__name__}: {e}; list model gives {m}')

if violations:
    print(f'\n{len(violations)} violation(s) of C18: {", ".join(violations)}')
    sys.exit(1)
print('no violation observed')
sys.exit(0)
