"""C15 - core indicators match their textbook definitions, ranges and orderings (Engine C).

Independent straightforward reference implementations (plain loops / numpy windows written from the definitions):
window functions must match exactly (1e-9); recursive smoothers must satisfy their recurrence step on their own output past
the seed and agree in value with the reference once the start-up seed has decayed below 1e-9; the ma() selector must return
exactly what the selected moving average returns; oscillators stay in range, bands are ordered, channels enclose price,
volatility is non-negative, price-homogeneous averages scale linearly.
Space: every period of the menu x every source type x the series menu (constant, monotone, alternating, huge and tiny prices,
walks) + all candle words of length 8 for periods 2 and 3.
"""
import itertools
import math

import numpy as np

from .. import core, indreg, progs, session as S
from ..core import Violation

ID = 'C15'
MA_TABLE = {0: 'sma', 1: 'ema', 2: 'wma', 3: 'dema', 4: 'tema', 5: 'trima', 6: 'kama', 9: 'fwma', 10: 'hma', 11: 'linearreg', 12: 'wilders', 13: 'sinwma',
            14: 'supersmoother', 15: 'supersmoother_3_pole', 16: 'gauss', 17: 'high_pass', 18: 'high_pass_2_pole', 20: 'jma', 21: 'reflex', 22: 'trendflex',
            23: 'smma', 24: 'vwma', 25: 'pwma', 26: 'swma', 27: 'alma', 28: 'hwma', 29: 'vwap', 30: 'nma', 31: 'edcf', 32: 'mwdx', 33: 'maaq', 34: 'srwma',
            35: 'sqwma', 36: 'vpwma', 37: 'cwma', 38: 'jsa', 39: 'epma'}
NO_PERIOD = {'hwma', 'vwap', 'mwdx'}


# ------------------------------------------------------------------ series

def series_menu(n):
    out = {}

    def build(closes, wick, vol=None):
        rows = []
        prev = closes[0]
        for i, c in enumerate(closes):
            o = prev
            h = max(o, c) + wick * (1 + (i * 7 % 5) / 5.0)
            l = max(min(o, c) - wick * (1 + (i * 3 % 4) / 4.0), min(o, c) * 0.5)
            rows.append([S.TS0 + i * 60000, o, c, h, l, 50.0 + (i * 37 % 91)])
            prev = c
        return np.array(rows, dtype=float)
    out['constant'] = build([100.0] * n, 0.0)
    out['up'] = build([100.0 + 0.25 * i for i in range(n)], 0.1)
    out['down'] = build([100.0 + 0.25 * (n - i) for i in range(n)], 0.1)
    out['alternating'] = build([100.0 + (3.0 if i % 2 else -3.0) for i in range(n)], 0.5)
    x, c, cl = 4242, 100.0, []
    for i in range(n):
        x = (1103515245 * x + 12345) % (2 ** 31)
        c = max(5.0, c + ((x >> 8) % 2001 - 1000) / 400.0)
        cl.append(c)
    out['walk'] = build(cl, 0.4)
    # session gaps: the open jumps away from the previous close, which then lies OUTSIDE the bar's range
    # (true range, ATR, Keltner, the ADX family see their |high - previous close| / |low - previous close| terms only here)
    g = out['walk'].copy()
    for i in range(1, n):
        jump = (3.0 if i % 3 == 0 else -2.5 if i % 3 == 1 else 0.0)
        o = g[i - 1, 2] + jump
        c = g[i, 2]
        g[i, 1] = o
        g[i, 3] = max(o, c) + 0.2
        g[i, 4] = max(min(o, c) - 0.2, 0.5)
    out['gappy'] = g
    big = out['walk'].copy()
    big[:, 1:5] *= 1e6
    out['huge'] = big
    tiny = out['walk'].copy()
    tiny[:, 1:5] *= 1e-6
    out['tiny'] = tiny
    # an expensive symbol that moves in cents: the deviation is eight orders of magnitude below the price level
    hf = build([1000000.1 + 0.01 * ((i * 7) % 5 - 2) for i in range(n)], 0.01)
    out['huge-flat'] = hf
    return out


def src(c, t):
    return {'close': c[:, 2], 'high': c[:, 3], 'low': c[:, 4], 'open': c[:, 1], 'volume': c[:, 5], 'hl2': (c[:, 3] + c[:, 4]) / 2,
            'hlc3': (c[:, 3] + c[:, 4] + c[:, 2]) / 3, 'ohlc4': (c[:, 1] + c[:, 3] + c[:, 4] + c[:, 2]) / 4}[t]


# ------------------------------------------------------------------ references

def r_window(x, p, fn):
    out = np.full(len(x), np.nan)
    for i in range(p - 1, len(x)):
        out[i] = fn(x[i - p + 1:i + 1])
    return out


def r_ema(x, alpha, seed=None):
    out = np.empty(len(x))
    out[0] = x[0] if seed is None else seed
    for i in range(1, len(x)):
        out[i] = alpha * x[i] + (1 - alpha) * out[i - 1]
    return out


def r_tr(c):
    h, l, cl = c[:, 3], c[:, 4], c[:, 2]
    tr = np.empty(len(c))
    tr[0] = h[0] - l[0]
    for i in range(1, len(c)):
        tr[i] = max(h[i] - l[i], abs(h[i] - cl[i - 1]), abs(l[i] - cl[i - 1]))
    return tr


def r_wilder_avg(x, p, start):
    """Wilder average seeded with the mean of x[start:start+p] at index start+p-1"""
    out = np.full(len(x), np.nan)
    if len(x) < start + p:
        return out
    out[start + p - 1] = np.mean(x[start:start + p])
    for i in range(start + p, len(x)):
        out[i] = (out[i - 1] * (p - 1) + x[i]) / p
    return out


def r_rsi(x, p):
    d = np.diff(x)
    g = np.where(d > 0, d, 0.0)
    lo = np.where(d < 0, -d, 0.0)
    ag = r_wilder_avg(g, p, 0)
    al = r_wilder_avg(lo, p, 0)
    out = np.full(len(x), np.nan)
    for i in range(p - 1, len(d)):
        out[i + 1] = 100.0 if al[i] == 0 else 100 - 100 / (1 + ag[i] / al[i])
    return out


def r_dm(c):
    h, l = c[:, 3], c[:, 4]
    plus = np.zeros(len(c))
    minus = np.zeros(len(c))
    for i in range(1, len(c)):
        up, dn = h[i] - h[i - 1], l[i - 1] - l[i]
        plus[i] = up if (up > dn and up > 0) else 0.0
        minus[i] = dn if (dn > up and dn > 0) else 0.0
    return plus, minus


def r_adx_family(c, p):
    tr = r_tr(c)
    plus, minus = r_dm(c)
    atr = r_wilder_avg(tr, p, 1)
    sp = r_wilder_avg(plus, p, 1)
    sm = r_wilder_avg(minus, p, 1)
    with np.errstate(divide='ignore', invalid='ignore'):
        dip = np.where(atr == 0, 0.0, 100 * sp / atr)
        dim = np.where(atr == 0, 0.0, 100 * sm / atr)
        s = dip + dim
        dx = np.where(s == 0, 0.0, 100 * np.abs(dip - dim) / np.where(s == 0, 1, s))
    adx = r_wilder_avg(np.nan_to_num(dx), p, p)
    return dip, dim, dx, adx, sp * p, sm * p


def decay_steps(alpha, mult=1.0):
    return int(math.ceil(mult * math.log(1e-12) / math.log(1 - alpha))) if 0 < alpha < 1 else 1


# ------------------------------------------------------------------ comparisons

class Bag:
    def __init__(self):
        self.n = 0
        self.viols = []
        self.seen = set()

    def bad(self, clause, ind, sig, case, msg):
        k = (clause, ind, repr(sorted(sig.items())))
        if k in self.seen:
            return
        self.seen.add(k)
        self.viols.append(Violation(clause, dict(sig, indicator=ind), dict(case, indicator=ind), msg).to_json())

    def eq(self, ind, got, want, case, clause='definition', frm=0, rel=1e-9, note=''):
        self.n += 1
        g = np.asarray(got, dtype=float)
        w = np.asarray(want, dtype=float)
        if g.shape != w.shape:
            self.bad('shape', ind, {}, case, '%s returned shape %s, reference %s' % (ind, g.shape, w.shape))
            return
        g, w = g[frm:], w[frm:]
        ok = (np.isnan(g) & np.isnan(w)) | (np.abs(g - w) <= np.maximum(1e-12 * np.maximum(1, np.abs(w)), rel * np.maximum(np.abs(g), np.abs(w))))
        if not ok.all():
            i = int(np.where(~ok)[0][0])
            self.bad(clause, ind, {}, case, '%s %s: index %d is %r, the definition gives %r %s' % (ind, case.get('params'), i + frm, float(g[i]), float(w[i]), note))


def _core_job(args):
    periods, quick = args[:2]
    nfix = args[2] if len(args) > 2 else None       # long-series runs: the same comparisons on a fixed, long input
    import jesse.indicators as ta
    B = Bag()
    sources = indreg.SOURCES if not quick else ['close', 'hl2', 'volume']
    LN = {'length': nfix} if nfix else {}
    if nfix:
        sources = ['close', 'hl2']
    for p in periods:
        a_e, a_w = 2.0 / (p + 1), 1.0 / p
        n = nfix or min(12000, max(400, 3 * p + 3 * decay_steps(a_w) + 60))
        menu = series_menu(n)
        names = list(menu) if not quick else ['constant', 'alternating', 'walk', 'gappy', 'huge', 'tiny', 'up', 'huge-flat']
        if nfix:
            names = ['walk', 'gappy']
        for sname in names:
            c = menu[sname]
            for st in sources:
                x = src(c, st)
                case = dict({'series': sname, 'params': {'period': p, 'source_type': st}}, **LN)
                kw = dict(period=p, source_type=st, sequential=True)
                # ---- window functions: exact
                B.eq('sma', ta.sma(c, **kw), r_window(x, p, np.mean), case)
                wts = np.arange(1, p + 1, dtype=float)
                B.eq('wma', ta.wma(c, **kw), r_window(x, p, lambda w: float(np.dot(w, wts) / wts.sum())), case)
                tri = np.array([min(i + 1, p - i) for i in range(p)], dtype=float)
                B.eq('trima', ta.trima(c, **kw), r_window(x, p, lambda w: float(np.dot(w, tri) / tri.sum())), case)
                sd = r_window(x, p, lambda w: float(np.sqrt(np.mean((w - np.mean(w)) ** 2))))      # two-pass: deviations from the mean first
                scale = max(1.0, float(np.max(np.abs(x))))
                sdtol = 1e-9 * scale + 1e-6 * np.nan_to_num(sd)       # what a careful float computation achieves at this price level
                got_sd = ta.stddev(c, period=p, nbdev=1, source_type=st, sequential=True)
                B.n += 1
                ok = (np.isnan(got_sd) & np.isnan(sd)) | (np.abs(got_sd - sd) <= sdtol)
                gv = ta.var(c, period=p, nbdev=1, source_type=st, sequential=True)
                B.n += 1
                okv = (np.isnan(gv) & np.isnan(sd)) | (np.abs(gv - sd ** 2) <= 2 * np.nan_to_num(sd) * sdtol + sdtol ** 2)
                if not okv.all():
                    i = int(np.where(~okv)[0][0])
                    B.bad('definition', 'var', {}, case, 'var period %d index %d is %r, population variance is %r' % (p, i, float(gv[i]), float(sd[i] ** 2)))
                if (gv[~np.isnan(gv)] < 0).any():
                    B.bad('non-negative', 'var', {}, case, 'var negative: %r' % float(np.nanmin(gv)))
                if not ok.all():
                    i = int(np.where(~ok)[0][0])
                    B.bad('definition', 'stddev', {}, case, 'stddev period %d index %d is %r, population standard deviation is %r' % (p, i, float(got_sd[i]), float(sd[i])))
                if p <= len(x) - 1:
                    roc = np.full(len(x), np.nan)
                    roc[p:] = (x[p:] / x[:-p] - 1) * 100
                    B.eq('roc', ta.roc(c, **kw), roc, case)
                    B.eq('rocp', ta.rocp(c, **kw), roc / 100, case, rel=1e-8)
                    B.eq('rocr', ta.rocr(c, **kw), roc / 100 + 1, case, rel=1e-8)
                    B.eq('rocr100', ta.rocr100(c, **kw), roc + 100, case, rel=1e-8)
                    mom = np.full(len(x), np.nan)
                    mom[p:] = x[p:] - x[:-p]
                    B.eq('mom', ta.mom(c, **kw), mom, case)
                mp = r_window(x, p, lambda w: (np.max(w) + np.min(w)) / 2)
                B.eq('midpoint', ta.midpoint(c, **kw), mp, case)
                # ---- recursive smoothers
                e = ta.ema(c, **kw)
                rec = np.full(len(x), np.nan)
                rec[p:] = a_e * x[p:] + (1 - a_e) * e[p - 1:-1]
                B.eq('ema', e, rec, case, clause='recurrence', frm=p)
                K = decay_steps(a_e)
                B.eq('ema', e, r_ema(x, a_e), case, clause='value-after-seed-decay', frm=p + K)
                wl = ta.wilders(c, **kw)
                rec = np.full(len(x), np.nan)
                rec[1:] = (wl[:-1] * (p - 1) + x[1:]) / p
                B.eq('wilders', wl, rec, case, clause='recurrence', frm=1)
                Kw = decay_steps(a_w)
                refw = r_ema(x, a_w)
                B.eq('wilders', wl, refw, case, clause='value-after-seed-decay', frm=Kw)
                B.eq('smma', ta.smma(c, **kw), refw, case, clause='value-after-seed-decay', frm=Kw)
                e1 = r_ema(x, a_e)
                e2 = r_ema(e1, a_e)
                e3 = r_ema(e2, a_e)
                B.eq('dema', ta.dema(c, **kw), 2 * e1 - e2, case, clause='value-after-seed-decay', frm=3 * K)
                B.eq('tema', ta.tema(c, **kw), 3 * e1 - 3 * e2 + e3, case, clause='value-after-seed-decay', frm=4 * K)
                if st != 'volume' or sname != 'constant':
                    rs = ta.rsi(c, **kw)
                    B.eq('rsi', rs, r_rsi(x, p), case, clause='value-after-seed-decay', frm=p + Kw)
                    # a simple average of a series that starts with undefined values (what composed indicators hand to sma / ma)
                    rs_arr = np.asarray(rs, dtype=float)
                    B.eq('sma', ta.sma(rs_arr, p, sequential=True), r_window(rs_arr, p, np.mean), dict(case, input='rsi series (NaN prefix)'), rel=1e-9)
                    B.eq('ma', ta.ma(rs_arr, period=p, matype=0, sequential=True), r_window(rs_arr, p, np.mean), dict(case, input='rsi series (NaN prefix)'), clause='selector', rel=1e-9)
                    B.n += 1
                    v = rs[~np.isnan(rs)]
                    if len(v) and (v.min() < -1e-9 or v.max() > 100 + 1e-9):
                        B.bad('range', 'rsi', {}, case, 'rsi outside [0, 100]: min %r max %r' % (float(v.min()), float(v.max())))
                # ---- homogeneity
                for lam in (1e6, 1e-6, 3.0):
                    c2 = c.copy()
                    c2[:, 1:5] *= lam
                    if st == 'volume':
                        continue
                    for nm in ('sma', 'ema', 'wma', 'dema', 'tema', 'trima', 'smma', 'wilders'):
                        f = getattr(ta, nm)
                        B.eq(nm, f(c2, **kw), lam * np.asarray(f(c, **kw)), dict(case, scale=lam), clause='price-homogeneity', rel=1e-8)
                # ---- bollinger
                bb = ta.bollinger_bands(c, period=p, devup=2, devdn=1.5, matype=0, devtype=0, source_type=st, sequential=True)
                mid = r_window(x, p, np.mean)
                B.eq('bollinger_bands', bb.middleband, mid, case)
                B.n += 1
                for nm, got, want in (('upperband', bb.upperband, mid + 2 * sd), ('lowerband', bb.lowerband, mid - 1.5 * sd)):
                    ok = (np.isnan(got) & np.isnan(want)) | (np.abs(got - want) <= 4 * sdtol)
                    if not ok.all():
                        i = int(np.where(~ok)[0][0])
                        B.bad('definition', 'bollinger_bands', {'field': nm}, case, 'bollinger %s index %d is %r, sma +- k*std gives %r' % (nm, i, float(got[i]), float(want[i])))
                m = ~np.isnan(bb.upperband)
                if (bb.upperband[m] < bb.middleband[m] - 1e-12 * scale).any() or (bb.middleband[m] < bb.lowerband[m] - 1e-12 * scale).any():
                    B.bad('band-order', 'bollinger_bands', {}, case, 'upper >= middle >= lower violated')
            # ---- candle based (no source type)
            case = dict({'series': sname, 'params': {'period': p}}, **LN)
            h, l, cl, o, v = c[:, 3], c[:, 4], c[:, 2], c[:, 1], c[:, 5]
            tr = r_tr(c)
            at = ta.atr(c, period=p, sequential=True)
            rec = np.full(len(c), np.nan)
            rec[p:] = (at[p - 1:-1] * (p - 1) + tr[p:]) / p
            B.eq('atr', at, rec, case, clause='recurrence', frm=p)
            ratr = r_wilder_avg(tr, p, 0)
            B.eq('atr', at, ratr, case, clause='value-after-seed-decay', frm=p + Kw)
            B.n += 1
            if (at[~np.isnan(at)] < 0).any():
                B.bad('non-negative', 'atr', {}, case, 'atr negative')
            B.eq('natr', ta.natr(c, period=p, sequential=True), ratr / cl * 100, case, clause='value-after-seed-decay', frm=p + Kw, rel=1e-8)
            hh = r_window(h, p, np.max)
            ll = r_window(l, p, np.min)
            dc = ta.donchian(c, period=p, sequential=True)
            B.eq('donchian', dc.upperband, hh, case)
            B.eq('donchian', dc.lowerband, ll, case)
            B.eq('donchian', dc.middleband, (hh + ll) / 2, case)
            B.n += 1
            m = ~np.isnan(dc.upperband)
            if (dc.upperband[m] < h[m]).any() or (dc.lowerband[m] > l[m]).any():
                B.bad('channel-encloses-price', 'donchian', {}, case, 'donchian band inside the candle range')
            B.eq('midprice', ta.midprice(c, period=p, sequential=True), (hh + ll) / 2, case)
            den = hh - ll
            with np.errstate(divide='ignore', invalid='ignore'):
                wr = np.where(den == 0, 0.0, -100 * (hh - cl) / np.where(den == 0, 1, den))
                wr[np.isnan(hh)] = np.nan
            wg = ta.willr(c, period=p, sequential=True)
            B.eq('willr', wg, wr, case)
            B.n += 1
            vv = wg[~np.isnan(wg)]
            if len(vv) and (vv.min() < -100 - 1e-9 or vv.max() > 1e-9):
                B.bad('range', 'willr', {}, case, 'willr outside [-100, 0]')
            tp = (h + l + cl) / 3
            smat = r_window(tp, p, np.mean)
            md = r_window(tp, p, lambda w: float(np.mean(np.abs(w - np.mean(w)))))
            with np.errstate(divide='ignore', invalid='ignore'):
                cc = np.where(md == 0, 0.0, (tp - smat) / (0.015 * np.where(md == 0, 1, md)))
                cc[np.isnan(smat)] = np.nan
            if sname not in ('constant',):
                # the numerator tp - mean(tp) is a difference at the price level: its float error, divided by 0.015 * md, bounds what
                # any float implementation can agree on (negligible at ordinary prices, about 1e-5 on the huge-price/small-move series)
                gc = np.asarray(ta.cci(c, period=p, sequential=True), dtype=float)
                B.n += 1
                with np.errstate(divide='ignore', invalid='ignore'):
                    ctol = 1e-6 * np.abs(cc) + 64 * 2.3e-16 * float(np.max(np.abs(tp))) / (0.015 * np.where(md > 0, md, np.inf)) + 1e-9
                okc = (np.isnan(gc) & np.isnan(cc)) | (np.abs(gc - cc) <= ctol)
                if gc.shape != cc.shape or not okc.all():
                    i = int(np.where(~okc)[0][0]) if gc.shape == cc.shape else -1
                    B.bad('definition', 'cci', {}, case, 'cci %s: index %d is %r, the definition gives %r' % (case.get('params'), i, float(gc[i]), float(cc[i])))
            # stochastic fast %K
            sf = ta.stochf(c, fastk_period=p, fastd_period=3, fastd_matype=0, sequential=True)
            with np.errstate(divide='ignore', invalid='ignore'):
                kk = 100 * (cl - ll) / (hh - ll)
            if sname != 'constant':
                B.eq('stochf', sf.k[p - 1:], kk[p - 1:], case, rel=1e-8)
                B.n += 1
                kv = sf.k[p - 1:]
                kv = kv[np.isfinite(kv)]
                if len(kv) and (kv.min() < -1e-7 or kv.max() > 100 + 1e-7):
                    B.bad('range', 'stochf', {}, case, 'stochf %%K outside [0, 100]: %r..%r' % (float(kv.min()), float(kv.max())))
                # %D lines: simple averages of a %K line that starts with undefined values (smoothing of a NaN-prefixed array)
                kn = kk.copy()
                kn[:p - 1] = np.nan
                d_ref = r_window(kn, 3, np.mean)
                B.eq('stochf', sf.d[p + 1:], d_ref[p + 1:], dict(case, field='d'), rel=1e-8)
                ss = ta.stoch(c, fastk_period=p, slowk_period=3, slowk_matype=0, slowd_period=3, slowd_matype=0, sequential=True)
                B.eq('stoch', ss.k[p + 1:], d_ref[p + 1:], dict(case, field='k'), rel=1e-8)
                B.eq('stoch', ss.d[p + 3:], r_window(d_ref, 3, np.mean)[p + 3:], dict(case, field='d'), rel=1e-8)
                # the same lines smoothed by a recursive average (EMA): defined from where the raw %K is defined, finite, in range
                se = ta.stoch(c, fastk_period=p, slowk_period=3, slowk_matype=1, slowd_period=3, slowd_matype=1, sequential=True)
                B.n += 1
                tail = np.asarray(se.k, dtype=float)[p + 40:]
                if np.isfinite(kk[p - 1:]).all() and (not len(tail) or not np.isfinite(tail).all() or tail.min() < -1e-7 or tail.max() > 100 + 1e-7):
                    B.bad('definition', 'stoch', {'smoothing': 'ema'}, dict(case, field='k', matype=1),
                          'stoch with EMA smoothing: %%K is not a finite value in [0, 100] %d candles after the raw %%K starts (first values %r)' % (40, tail[:3].tolist()))
            # money flow index
            raw = tp * v
            pos = np.zeros(len(c))
            neg = np.zeros(len(c))
            pos[1:] = np.where(tp[1:] > tp[:-1], raw[1:], 0)
            neg[1:] = np.where(tp[1:] < tp[:-1], raw[1:], 0)
            rp, rn = r_window(pos, p, np.sum), r_window(neg, p, np.sum)
            with np.errstate(divide='ignore', invalid='ignore'):
                mf = np.where(rn == 0, 100.0, 100 - 100 / (1 + rp / np.where(rn == 0, 1, rn)))
                mf[np.isnan(rp)] = np.nan
            mg = ta.mfi(c, period=p, sequential=True)
            B.eq('mfi', mg, mf, case, rel=1e-8)
            B.n += 1
            mv = mg[~np.isnan(mg)]
            if len(mv) and (mv.min() < -1e-9 or mv.max() > 100 + 1e-9):
                B.bad('range', 'mfi', {}, case, 'mfi outside [0, 100]')
            # keltner: middle = ema, bands = middle +- mult * atr
            kc = ta.keltner(c, period=p, multiplier=2, matype=1, source_type='close', sequential=True)
            B.eq('keltner', kc.middleband, ta.ema(c, period=p, source_type='close', sequential=True), case, clause='selector')
            B.eq('keltner', kc.upperband - kc.middleband, 2 * ratr, case, clause='value-after-seed-decay', frm=p + Kw, rel=1e-7)
            B.eq('keltner', kc.middleband - kc.lowerband, 2 * ratr, case, clause='value-after-seed-decay', frm=p + Kw, rel=1e-7)
            B.n += 1
            m = ~np.isnan(kc.upperband)
            if (kc.upperband[m] < kc.middleband[m]).any() or (kc.middleband[m] < kc.lowerband[m]).any():
                B.bad('band-order', 'keltner', {}, case, 'upper >= middle >= lower violated')
            # adx family
            if 2 * p + 3 * Kw + 10 < len(c):
                dip, dim, dx, adx, sp, sm = r_adx_family(c, p)
                frm = 2 * p + 3 * Kw
                dg = ta.di(c, period=p, sequential=True)
                B.eq('di', dg.plus, dip, case, clause='value-after-seed-decay', frm=frm, rel=1e-7)
                B.eq('di', dg.minus, dim, case, clause='value-after-seed-decay', frm=frm, rel=1e-7)
                ag = ta.adx(c, period=p, sequential=True)
                B.eq('adx', ag, adx, case, clause='value-after-seed-decay', frm=frm, rel=1e-6)
                mg2 = ta.dm(c, period=p, sequential=True)
                plus, minus = r_dm(c)
                rec = np.full(len(c), np.nan)
                rec[p + 1:] = mg2.plus[p:-1] - mg2.plus[p:-1] / p + plus[p + 1:]
                B.eq('dm', mg2.plus, rec, case, clause='recurrence', frm=p + 1)
                B.eq('dm', mg2.plus, sp, case, clause='value-after-seed-decay', frm=frm, rel=1e-7)
                B.eq('dm', mg2.minus, sm, case, clause='value-after-seed-decay', frm=frm, rel=1e-7)
                B.n += 1
                for nm, arr in (('adx', ag), ('di+', dg.plus), ('di-', dg.minus)):
                    a = np.asarray(arr, dtype=float)
                    a = a[~np.isnan(a)]
                    if len(a) and (a.min() < -1e-9 or a.max() > 100 + 1e-9):
                        B.bad('range', nm.rstrip('+-'), {'field': nm}, case, '%s outside [0, 100]: %r..%r' % (nm, float(a.min()), float(a.max())))
        # ---- period independent (once per period loop is cheap enough)
        c = menu['walk']
        case = {'series': 'walk', 'params': {}}
        h, l, cl, o, v = c[:, 3], c[:, 4], c[:, 2], c[:, 1], c[:, 5]
        B.eq('typprice', ta.typprice(c, sequential=True), (h + l + cl) / 3, case)
        B.eq('medprice', ta.medprice(c, sequential=True), (h + l) / 2, case)
        B.eq('wclprice', ta.wclprice(c, sequential=True), (h + l + 2 * cl) / 4, case)
        B.eq('avgprice', ta.avgprice(c, sequential=True), (o + h + l + cl) / 4, case)
        B.eq('trange', ta.trange(c, sequential=True)[1:], r_tr(c)[1:], case)
        ob = np.empty(len(c))
        ob[0] = v[0]
        for i in range(1, len(c)):
            ob[i] = ob[i - 1] + (v[i] if cl[i] > cl[i - 1] else -v[i] if cl[i] < cl[i - 1] else 0.0)
        B.eq('obv', ta.obv(c, sequential=True), ob, case)
        # macd (fast < slow taken from the period)
        fp, sp_, sg = p, 2 * p + 1, max(2, p // 2 + 1)
        mc = ta.macd(c, fast_period=fp, slow_period=sp_, signal_period=sg, source_type='close', sequential=True)
        ml = r_ema(cl, 2.0 / (fp + 1)) - r_ema(cl, 2.0 / (sp_ + 1))
        sl = r_ema(ml, 2.0 / (sg + 1))
        cm = {'series': 'walk', 'params': {'fast_period': fp, 'slow_period': sp_, 'signal_period': sg}}
        B.eq('macd', mc.macd, ml, cm, clause='value-after-seed-decay', frm=2 * decay_steps(2.0 / (sp_ + 1)), rel=1e-7)
        B.eq('macd', mc.signal, sl, cm, clause='value-after-seed-decay', frm=3 * decay_steps(2.0 / (sp_ + 1)), rel=1e-6)
        B.eq('macd', mc.hist, np.asarray(mc.macd) - np.asarray(mc.signal), cm, clause='definition')
    return {'n': B.n, 'viols': B.viols}


def _selector_job(args):
    periods, quick = args
    import jesse.indicators as ta
    B = Bag()
    c = series_menu(260)['walk']
    for k, name in sorted(MA_TABLE.items()):
        f = getattr(ta, name)
        for p in periods:
            for st in (indreg.SOURCES if not quick else ['close', 'hl2']):
                case = {'series': 'walk', 'params': {'matype': k, 'period': p, 'source_type': st}}
                try:
                    if name in NO_PERIOD:
                        want = f(c, source_type=st, sequential=True)
                    else:
                        want = f(c, p, source_type=st, sequential=True)
                except Exception as e:
                    want = e
                try:
                    got = ta.ma(c, period=p, matype=k, source_type=st, sequential=True)
                except Exception as e:
                    got = e
                B.n += 1
                if isinstance(want, Exception) or isinstance(got, Exception):
                    if type(want) is not type(got):
                        B.bad('selector', 'ma', {'matype': k}, case, 'ma(matype=%d) -> %r but %s -> %r' % (k, got if isinstance(got, Exception) else 'values', name, want if isinstance(want, Exception) else 'values'))
                    continue
                w = np.asarray(want, dtype=float)
                g = np.asarray(got, dtype=float)
                if w.shape != g.shape or not ((np.isnan(w) & np.isnan(g)) | (w == g)).all():
                    B.bad('selector', 'ma', {'matype': k}, case, 'ma(period=%d, matype=%d, %s) differs from %s(period=%d, %s)' % (p, k, st, name, p, st))
                # the non-sequential selector too
                try:
                    g1 = ta.ma(c, period=p, matype=k, source_type=st, sequential=False)
                    w1 = f(c, source_type=st, sequential=False) if name in NO_PERIOD else f(c, p, source_type=st, sequential=False)
                    if not (np.isnan(g1) and np.isnan(w1)) and g1 != w1:
                        B.bad('selector', 'ma', {'matype': k, 'sequential': False}, case, 'ma(matype=%d, sequential=False) = %r, %s(sequential=False) = %r' % (k, g1, name, w1))
                except Exception:
                    pass
    # the same comparison on a plain 1-D series (what composed indicators hand to the selector), longer than the warm-up window
    x1 = series_menu(400)['walk'][:, 2].copy()
    for k, name in sorted(MA_TABLE.items()):
        if name in NO_PERIOD or name in ('vwma', 'vwap', 'vpwma'):
            continue          # need the candle matrix
        f = getattr(ta, name)
        for p in periods:
            for seq in (True, False):
                case = {'series': 'walk-1d', 'params': {'matype': k, 'period': p, 'sequential': seq}}
                try:
                    w = np.asarray(f(x1, p, sequential=seq), dtype=float)
                    g = np.asarray(ta.ma(x1, period=p, matype=k, sequential=seq), dtype=float)
                except Exception:
                    continue
                B.n += 1
                if w.shape != g.shape or not ((np.isnan(w) & np.isnan(g)) | (w == g)).all():
                    B.bad('selector', 'ma', {'matype': k, 'input': '1-D', 'sequential': seq}, case,
                          'on a 1-D series of 400 values ma(period=%d, matype=%d, sequential=%s) differs from %s(period=%d, sequential=%s)' % (p, k, seq, name, p, seq))
    for k in (7, 8, 19, 40, -1):
        B.n += 1
        try:
            ta.ma(c, period=5, matype=k, sequential=True)
            B.bad('selector', 'ma', {'matype': k}, {'params': {'matype': k}}, 'ma(matype=%d) did not raise' % k)
        except Exception:
            pass
    return {'n': B.n, 'viols': B.viols}


def _words_job(args):
    """all candle words of length 8 over 3 shapes for periods 2 and 3: window functions only"""
    chunk, = args
    import jesse.indicators as ta
    B = Bag()
    shapes = [progs.SHAPES[s] for s in ('U2w', 'D1', 'GU')]
    for w in chunk:
        c = S.make_candles([shapes[i] for i in w], 100.0, 0.5)
        x = c[:, 2]
        for p in (2, 3):
            case = {'word': list(w), 'params': {'period': p}}
            B.eq('sma', ta.sma(c, period=p, sequential=True), r_window(x, p, np.mean), case)
            wts = np.arange(1, p + 1, dtype=float)
            B.eq('wma', ta.wma(c, period=p, sequential=True), r_window(x, p, lambda v: float(np.dot(v, wts) / wts.sum())), case)
            hh, ll = r_window(c[:, 3], p, np.max), r_window(c[:, 4], p, np.min)
            dc = ta.donchian(c, period=p, sequential=True)
            B.eq('donchian', dc.upperband, hh, case)
            B.eq('donchian', dc.lowerband, ll, case)
            mom = np.full(len(x), np.nan)
            mom[p:] = x[p:] - x[:-p]
            B.eq('mom', ta.mom(c, period=p, sequential=True), mom, case)
            e = ta.ema(c, period=p, sequential=True)
            a = 2.0 / (p + 1)
            rec = np.full(len(x), np.nan)
            rec[p:] = a * x[p:] + (1 - a) * e[p - 1:-1]
            B.eq('ema', e, rec, case, clause='recurrence', frm=p)
    return {'n': B.n, 'viols': B.viols}


def run(ctx):
    cov = ctx.coverage
    periods = list(range(2, 61)) if not ctx.quick else [2, 3, 5, 7, 9, 10, 12, 14, 20, 21, 26, 30, 50, 60]
    jobs = [([p], ctx.quick) for p in periods]
    # long inputs (research-style calls on months of 1m candles): implementations switch algorithms with the input length
    LONG = [(5000, [2, 14, 50])] if ctx.quick else [(4097, [2, 3, 14]), (5000, [2, 5, 14, 30, 60]), (20000, [14, 60])]
    jobs += [([p], ctx.quick, n) for n, ps in LONG for p in ps]
    sigs = set()

    def take(r):
        cov['transitions'] += r['n']
        for v in r['viols']:
            v = Violation.from_json(v)
            ctx.count('violation:' + v.clause)
            if v.sigkey() not in sigs:
                sigs.add(v.sigkey())
                ctx.add(v)
    for st, r in core.pmap_isolated(_core_job, jobs):
        if st != 'ok':
            raise core.HarnessError('C15 worker crashed: %s' % r)
        take(r)
    ctx.count('core-comparisons', cov['transitions'])
    sel_periods = [2, 5, 14, 30] if ctx.quick else [2, 3, 5, 9, 14, 21, 30, 60]
    for st, r in core.pmap_isolated(_selector_job, [([p], ctx.quick) for p in sel_periods]):
        if st != 'ok':
            raise core.HarnessError('C15 selector worker crashed: %s' % r)
        take(r)
    words = list(itertools.product(range(3), repeat=8 if not ctx.quick else 6))
    for st, r in core.pmap_isolated(_words_job, [(ch,) for ch in core.chunks(words, max(1, len(words) // 32))]):
        if st != 'ok':
            raise core.HarnessError('C15 words worker crashed: %s' % r)
        take(r)
    cov['states'] = cov['transitions']
    cov['traces_validated_against_impl'] = cov['transitions']
    cov['evaluations'] = cov['transitions']
    cov['distinct_nontrivial'] = len(periods) * 40 + len(MA_TABLE) * len(sel_periods)
    cov['rule'] = 'every period x source type x series of the menu for ~40 indicators + every matype of ma() + all words of length 8 for periods 2, 3; distinct_nontrivial = (period, indicator) pairs + (matype, period) pairs'
    cov['bounds'] = {'periods': periods, 'sources': indreg.SOURCES if not ctx.quick else ['close', 'hl2', 'volume'], 'series': sorted(series_menu(10)),
                     'matypes': sorted(MA_TABLE), 'word_length': 8 if not ctx.quick else 6, 'long_series': [[n, ps] for n, ps in LONG]}
    ctx.sample({'indicator': 'ema', 'series': 'walk', 'params': {'period': 14, 'source_type': 'hl2'}})
    ctx.sample({'indicator': 'ma', 'params': {'matype': 12, 'period': 5}})
    ctx.assumptions += ['recursive smoothers: recurrence step checked on the implementation\'s own output past the seed; values compared with a reference seeded by the first value once (1-alpha)^k < 1e-12 (times 2-4 for nested smoothing)',
                        'standard deviation based values use an absolute tolerance of 1e-6 x price scale (square root of a cancelling difference)']


def replay(case, ctx):
    ind = case.get('indicator')
    p = case.get('params', {}).get('period') or case.get('params', {}).get('fast_period') or 5
    if ind == 'ma':
        r = _selector_job(([p], False))
    elif 'word' in case:
        r = _words_job(([tuple(case['word'])],))
    else:
        r = _core_job(([p], False, case['length'])) if case.get('length') else _core_job(([p], False))
    return [Violation.from_json(v) for v in r['viols'] if v['case'].get('indicator') == ind]
