"""
Audit C17 - sizing and numeric helpers.  Run:  cd /tmp/wta_C17 && /venv/bin/python audit_C17.py
Exits 1 (and explains) when at least one violation of the property is reproduced, 0 otherwise.
"""
import sys, warnings
warnings.filterwarnings('ignore')
from decimal import Decimal, localcontext
from fractions import Fraction as F

import numpy as np
import jesse.helpers as jh
from jesse import utils

violations = []
notes = []

# ---------------------------------------------------------------- V1
# "quantity rounding for live trading never rounds up (except to the minimum unit when the result would be zero)"
for x, p in [(7.9422999999999995, 4), (0.0057061099999999995, 8), (58144.708119999996, 5)]:
    r = jh.round_qty_for_live_mode(x, p)
    ra = jh.round_qty_for_live_mode(np.array([x]), p)[0]
    d = jh.round_decimals_down(x, p)
    if F(r) > F(x) or F(float(ra)) > F(x) or F(float(d)) > F(x):
        violations.append(
            f"V1 round_qty_for_live_mode({x!r}, {p}) = {r!r} > input (array path {float(ra)!r}, "
            f"round_decimals_down {float(d)!r}); excess = {float(F(r) - F(x)):.3e}, result is not zero/min-unit case")

# ---------------------------------------------------------------- V2
# "stop-loss limiting never widens the risk"
e, s, pct = 1.0, 0.1, 95
r = utils.limit_stop_loss(e, s, 'long', pct)
if abs(F(e) - F(r)) > abs(F(e) - F(s)):
    violations.append(
        f"V2 limit_stop_loss({e}, {s}, 'long', {pct}) = {r!r} which is BELOW the requested stop {s!r}: "
        f"risk widened by {float(abs(F(e)-F(r)) - abs(F(e)-F(s))):.3e} although the stop was inside the {pct}% limit")

# ---------------------------------------------------------------- V3
# "never costs more than that capital including fees - so an order for it at that price is accepted by a
#  fresh account holding the capital", quantified "for every ... fee rate": a negative fee (maker rebate)
#  turns the 3*fee reserve into a 3*|fee| surcharge.
cap, price, prec, fee = 1000.0, 10.0, 3, -0.0002
q = utils.size_to_qty(cap, price, precision=prec, fee_rate=fee)
cost_incl_fee = F(q) * F(price) * (1 + F(fee))
if cost_incl_fee > F(cap):
    msg = (f"V3 size_to_qty({cap}, {price}, precision={prec}, fee_rate={fee}) = {q!r}: costs {q*price!r} "
           f"(incl. fee {float(cost_incl_fee)!r}) > capital {cap}")
    # demonstrate the rejection by a fresh account in a real (isolated) backtest, spot and futures, both simulators
    from jesse import research
    from jesse.strategies import Strategy

    class AllIn(Strategy):
        def should_long(self): return self.index == 1
        def should_short(self): return False
        def should_cancel_entry(self): return False
        def go_long(self):
            capital = self.balance if self.exchange_type == 'spot' else self.leveraged_available_margin
            self.buy = utils.size_to_qty(capital, self.price, precision=3, fee_rate=self.fee_rate), self.price

    def session(typ, fast, fee_rate):
        n = 10
        c = np.zeros((n, 6)); c[:, 0] = 1609459200000 + np.arange(n) * 60000
        c[:, 1] = c[:, 2] = price; c[:, 3] = price * 1.0005; c[:, 4] = price * 0.9995; c[:, 5] = 1
        cfg = {'starting_balance': cap, 'fee': fee_rate, 'type': typ, 'futures_leverage': 2,
               'futures_leverage_mode': 'cross', 'exchange': 'Sandbox', 'warm_up_candles': 0}
        routes = [{'exchange': 'Sandbox', 'strategy': AllIn, 'symbol': 'BTC-USDT', 'timeframe': '1m'}]
        jh.CACHED_CONFIG.clear()
        try:
            research.backtest(cfg, routes, [], {'Sandbox-BTC-USDT': {'exchange': 'Sandbox', 'symbol': 'BTC-USDT', 'candles': c}}, fast_mode=fast)
            return 'accepted'
        except Exception as ex:
            return type(ex).__name__
    outcomes = {(t, f): session(t, f, fee) for t in ('spot', 'futures') for f in (False, True)}
    control = {(t, f): session(t, f, 0.0002) for t in ('spot', 'futures') for f in (False, True)}
    if any(v != 'accepted' for v in outcomes.values()):
        violations.append(msg + f"; real backtests with fee={fee}: {outcomes}; control with fee=+0.0002: {control}")
    else:
        notes.append(msg + " (but the orders were accepted?)")

# ---------------------------------------------------------------- V4
# "Decimal helpers add and subtract exactly in decimal arithmetic" (float pairs with up to 8 decimals)
a, b = 1e20, 8192.00000001          # both are printed exactly by str(); ulp(1e20) = 16384
with localcontext() as ctx:
    ctx.prec = 100
    exact_sum = float(Decimal(str(a)) + Decimal(str(b)))
    exact_sub = float(Decimal(str(a)) - Decimal(str(-b)))
got_sum, got_sub = utils.sum_floats(a, b), utils.subtract_floats(a, -b)
if got_sum != exact_sum or got_sub != exact_sub:
    violations.append(
        f"V4 sum_floats({a!r}, {b!r}) = {got_sum!r} but the exact decimal sum 100000000000000008192.00000001 "
        f"is nearest to the float {exact_sum!r} (plain a+b = {a+b!r}); the default 28-digit Decimal context rounds "
        f"the 29-digit sum to the tie point first (subtract_floats likewise: {got_sub!r} vs {exact_sub!r})")

# ---------------------------------------------------------------- observation O1 (not counted)
cap, pct, entry, stop, prec, fee = 10000, 1, 100, 80, 3, 0.001
q = utils.risk_to_qty(cap, pct, entry, stop, precision=prec, fee_rate=fee)
single = utils.size_to_qty(utils.risk_to_size(cap, pct, abs(entry - stop), entry), entry, precision=prec, fee_rate=fee)
if q != single:
    notes.append(f"O1 risk_to_qty applies the 3*fee reserve twice: risk_to_qty({cap},{pct},{entry},{stop},precision={prec},fee_rate={fee}) "
                 f"= {q} whereas size_to_qty(risk_to_size(...), fee_rate={fee}) = {single} ({round((single-q)*10**prec)} precision steps apart)")

for n in notes:
    print('NOTE      ', n)
for v in violations:
    print('VIOLATION ', v)
if violations:
    print(f"\n{len(violations)} violation(s) of C17 reproduced")
    sys.exit(1)
print('no violation reproduced')
sys.exit(0)
