"""Shared plumbing: violations, evidence, findings, fork pool.

Every check module in vf/checks exposes
    ID: str
    def run(ctx) -> None          # fills ctx (coverage, violations)
    def replay(case, ctx) -> list # re-executes one stored case, returns list[Violation]
"""
import hashlib
import json
import math
import os
import subprocess
import sys
import time
import traceback
from concurrent.futures import ProcessPoolExecutor
from concurrent.futures.process import BrokenProcessPool
import multiprocessing as mp

ROOT = os.path.dirname(os.path.dirname(os.path.abspath(__file__)))
NPROC = int(os.environ.get('VERIF_NPROC', '16'))

EMBEDDINGS = [
    # (base price, tick, qty unit)
    (100.0, 1.0, 1.0),
    (37.5, 0.25, 0.5),
    (0.0123, 0.0001, 250.0),
    (25000.0, 12.5, 0.004),
]

# extreme price scales (micro-priced and very expensive symbols): every session-based check also runs a reduced part of its
# space on these, whatever the seed, so that an absolute tolerance or a magnitude-dependent branch cannot hide
SCALES = [
    (1.23e-06, 1e-08, 1e5),
    (1.5e6, 250.0, 1e-4),
]


class HarnessError(Exception):
    pass


def jsonable(x):
    """Convert numpy / tuple / Fraction values to plain JSON values."""
    import numpy as np
    from fractions import Fraction
    from decimal import Decimal
    if isinstance(x, dict):
        return {str(k): jsonable(v) for k, v in x.items()}
    if isinstance(x, (list, tuple, set, frozenset)):
        return [jsonable(v) for v in x]
    if isinstance(x, np.ndarray):
        return jsonable(x.tolist())
    if isinstance(x, (np.integer,)):
        return int(x)
    if isinstance(x, (np.floating,)):
        x = float(x)
    if isinstance(x, (np.bool_,)):
        return bool(x)
    if isinstance(x, float):
        if math.isnan(x):
            return 'NaN'
        if math.isinf(x):
            return 'Infinity' if x > 0 else '-Infinity'
        return x
    if isinstance(x, (Fraction, Decimal)):
        return str(x)
    if isinstance(x, (str, int, bool)) or x is None:
        return x
    if isinstance(x, type):
        return x.__name__
    return repr(x)


class Violation:
    __slots__ = ('clause', 'signature', 'case', 'message')

    def __init__(self, clause, signature, case, message):
        self.clause = clause
        self.signature = dict(signature)
        self.signature.setdefault('clause', clause)
        self.case = case
        self.message = message

    def to_json(self):
        return jsonable({'clause': self.clause, 'signature': self.signature, 'case': self.case,
                         'message': self.message})

    @staticmethod
    def from_json(d):
        return Violation(d['clause'], d['signature'], d['case'], d['message'])

    def sigkey(self):
        return json.dumps(jsonable(self.signature), sort_keys=True)


class Ctx:
    """Per-run context handed to a check."""

    def __init__(self, prop, tier, seed):
        self.prop = prop
        self.tier = tier
        self.seed = seed
        self.quick = tier == 'quick'
        self.embedding_index = seed % len(EMBEDDINGS)
        self.embedding = EMBEDDINGS[self.embedding_index]
        self.coverage = {
            'states': 0, 'transitions': 0, 'traces_validated_against_impl': 0,
            'evaluations': 0, 'distinct_nontrivial': 0, 'rule': '', 'samples': [],
            'exhaustive': True, 'bounds': {}, 'outcomes': {},
        }
        self.assumptions = []
        self.violations = []   # list[Violation]
        self.max_violations_kept = 2000
        self.total_violations = 0

    def add(self, v):
        self.total_violations += 1
        if len(self.violations) < self.max_violations_kept:
            self.violations.append(v)

    def extend(self, vs):
        for v in vs:
            self.add(v)

    def count(self, key, n=1):
        o = self.coverage['outcomes']
        o[key] = o.get(key, 0) + n

    def merge_counts(self, d):
        for k, v in d.items():
            self.count(k, v)

    def sample(self, case, limit=5):
        if len(self.coverage['samples']) < limit:
            self.coverage['samples'].append(jsonable(case))


# ------------------------------------------------------------------ findings

def load_findings(prop):
    path = os.path.join(ROOT, 'known_findings.json')
    if not os.path.exists(path):
        return []
    with open(path) as f:
        data = json.load(f)
    return [e for e in data.get('findings', []) if e.get('property') == prop]


def match_finding(v, findings):
    """A violation is covered by a *known* entry iff every key of the entry's signature is present
    in the violation's signature with an equal value (fixed entries never suppress anything)."""
    sig = jsonable(v.signature)
    for e in findings:
        if e.get('status') != 'known':
            continue
        es = e['signature']
        # a list in the entry means "one of these values"
        if all(k in sig and (sig[k] in val if isinstance(val, list) else sig[k] == val) for k, val in es.items()):
            return e
    return None


# ------------------------------------------------------------------ replays / evidence

def write_replay(prop, v):
    d = os.path.join(ROOT, 'replays', prop)
    os.makedirs(d, exist_ok=True)
    body = {'property': prop}
    body.update(v.to_json())
    s = json.dumps(body, sort_keys=True, indent=1)
    name = hashlib.sha1(s.encode()).hexdigest()[:16] + '.json'
    path = os.path.join(d, name)
    with open(path, 'w') as f:
        f.write(s)
    return path


def write_evidence(ctx, wall, n_unlisted, known_hit):
    cov = dict(ctx.coverage)
    cov['known_findings_hit'] = known_hit
    cov['embedding'] = {'index': ctx.embedding_index, 'base_tick_qty': list(ctx.embedding)}
    for k in ('states', 'transitions', 'traces_validated_against_impl', 'evaluations', 'distinct_nontrivial'):
        cov[k] = int(cov.get(k, 0))
    ev = {
        'property_id': ctx.prop,
        'tier': ctx.tier,
        'seed': int(ctx.seed),
        'level': 'model_checking',
        'coverage': jsonable(cov),
        'assumptions': list(ctx.assumptions),
        'wall_s': round(wall, 2),
        'violations': int(n_unlisted),
    }
    d = os.path.join(ROOT, 'evidence')
    os.makedirs(d, exist_ok=True)
    path = os.path.join(d, ctx.prop + '.json')
    tmp = path + '.tmp%d' % os.getpid()
    with open(tmp, 'w') as f:
        json.dump(ev, f, indent=1, sort_keys=True)
        f.write('\n')
    os.replace(tmp, path)
    validate_evidence(path)
    return path


def validate_evidence(path):
    """Validate against the harness schema with the tooling venv (jsonschema lives there)."""
    schema = '/root/.vp/EVIDENCE.schema.json'
    if not os.path.exists(schema) or not os.path.exists('/opt/veriftools/pyvenv/bin/python'):
        return
    code = ("import json,sys,jsonschema;"
            "jsonschema.validate(json.load(open(sys.argv[1])),json.load(open(sys.argv[2])))")
    env = {k: v for k, v in os.environ.items() if not k.startswith('PYTHON')}
    r = subprocess.run(['/opt/veriftools/pyvenv/bin/python', '-c', code, path, schema],
                       capture_output=True, text=True, env=env)
    if r.returncode != 0:
        raise HarnessError('evidence file does not validate: ' + r.stderr[-800:])


# ------------------------------------------------------------------ pool

_WORK = {}


def _call(args):
    name, item = args
    try:
        return ('ok', _WORK[name](item))
    except BaseException:  # harness failure inside a worker
        return ('err', traceback.format_exc())


def pmap(func, items, chunksize=None, nproc=None):
    """Order-preserving parallel map over forked workers. func must be a module-level callable that was
    defined before the call (fork copies it). A worker crash or an exception escaping func is a harness
    error (exit 2), never a property verdict."""
    items = list(items)
    nproc = nproc or NPROC
    if not items:
        return []
    if nproc <= 1 or len(items) == 1:
        return [func(it) for it in items]
    name = '%s.%s' % (getattr(func, '__module__', ''), getattr(func, '__qualname__', repr(func)))
    _WORK[name] = func
    if chunksize is None:
        chunksize = max(1, min(256, len(items) // (nproc * 8) or 1))
    out = []
    try:
        with ProcessPoolExecutor(max_workers=min(nproc, len(items)), mp_context=mp.get_context('fork')) as ex:
            for st, val in ex.map(_call, [(name, it) for it in items], chunksize=chunksize):
                if st == 'err':
                    raise HarnessError('worker raised:\n' + val)
                out.append(val)
    except BrokenProcessPool as e:
        raise HarnessError('worker process died: %r' % (e,))
    return out


def chunks(seq, n):
    seq = list(seq)
    for i in range(0, len(seq), n):
        yield seq[i:i + n]


# ------------------------------------------------------------------ numbers

def close(a, b, rel=1e-9, abs_=1e-12):
    if a is None or b is None:
        return a is None and b is None
    a = float(a)
    b = float(b)
    if math.isnan(a) or math.isnan(b):
        return math.isnan(a) and math.isnan(b)
    if math.isinf(a) or math.isinf(b):
        return a == b
    return abs(a - b) <= max(abs_, rel * max(abs(a), abs(b)))


def pmap_isolated(func, items, nproc=None, timeout=600):
    """Like pmap, but every item runs in its own freshly forked child, so a native crash (numba kernels indexing out of
    bounds corrupt the heap) only loses that one item. Returns [('ok', value) | ('crash', description)]."""
    import select
    ctx = mp.get_context('fork')
    nproc = nproc or NPROC
    items = list(items)
    results = [None] * len(items)
    running = {}     # fileno -> (index, process, conn, started)
    nxt = 0

    def child(conn, it):
        try:
            conn.send(('ok', func(it)))
        except BaseException:
            try:
                conn.send(('err', traceback.format_exc()))
            except BaseException:
                pass
        finally:
            conn.close()
            os._exit(0)

    while nxt < len(items) or running:
        while nxt < len(items) and len(running) < nproc:
            pc, cc = ctx.Pipe(duplex=False)
            p = ctx.Process(target=child, args=(cc, items[nxt]))
            p.start()
            cc.close()
            running[pc.fileno()] = (nxt, p, pc, time.time())
            nxt += 1
        ready, _, _ = select.select([v[2] for v in running.values()], [], [], 1.0)
        for conn in ready:
            idx, p, pc, t0 = running.pop(conn.fileno())
            try:
                st, val = conn.recv()
                if st == 'err':
                    raise HarnessError('worker raised:\n' + val)
                results[idx] = ('ok', val)
            except EOFError:
                p.join(5)
                results[idx] = ('crash', 'child died with exit code %r' % (p.exitcode,))
            conn.close()
            p.join(5)
        for fn, (idx, p, pc, t0) in list(running.items()):
            if time.time() - t0 > timeout:
                p.kill()
                running.pop(fn)
                pc.close()
                results[idx] = ('crash', 'timeout after %ds' % timeout)
    return results
