"""
C02 audit, round 2 - counterexample.

A resting order whose price equals the price of the fill that immediately precedes it in the same
minute (two entry legs at one level, an add-on leg at a take-profit level, ...) is matched at the
OPEN of the remaining part of the candle.  jesse.services.candle.split_candle() answers
`price == open` with `return candle, candle`: the "already traded" part handed to the strategy is
the WHOLE remaining candle, so during the handlers of that fill the current price
(position.current_price, strategy.price) is the CLOSE of the minute instead of the fill price.

  1. a MARKET order submitted from that handler (self.liquidate()) is filled at the minute's close
     (105) although the price at the moment of submission is 95          -> clause
     "A MARKET order is filled at the current price at the moment it is submitted"
  2. a take-profit declared at 105.01 from that handler is compared with the future close (105),
     found "near", and filled at once at 105.01 - a price the minute [90, 105] never trades, at a
     moment the price is 95, and ahead of the stop at 92 which the path reaches first -> clause
     "filled during the first simulated minute ... whose price range ... contains the order price"

Both simulators.  exit 1 = violation reproduced, exit 0 = not reproduced.
"""
import sys
import warnings

warnings.filterwarnings('ignore')

import numpy as np
import jesse.helpers as jh
from jesse import research
from jesse.strategies import Strategy

T0 = 1609459200000


def candles(rows):
    return np.array([[T0 + i * 60000, o, c, h, l, 1.0] for i, (o, c, h, l) in enumerate(rows)], dtype=float)


def run(strategy, rows, fast, tf):
    if hasattr(jh, 'CACHED_CONFIG'):
        jh.CACHED_CONFIG.clear()
    config = {'starting_balance': 100_000, 'fee': 0, 'type': 'futures', 'futures_leverage': 2,
              'futures_leverage_mode': 'cross', 'exchange': 'Sandbox', 'warm_up_candles': 0}
    routes = [{'exchange': 'Sandbox', 'strategy': strategy, 'symbol': 'BTC-USDT', 'timeframe': tf}]
    data = {'Sandbox-BTC-USDT': {'exchange': 'Sandbox', 'symbol': 'BTC-USDT', 'candles': candles(rows)}}
    return research.backtest(config, routes, [], data, fast_mode=fast)


class Base(Strategy):
    FILLS = None          # (event, order type, side, qty, price, minute index, strategy.price seen by the handler)
    LEGS = None

    def _log(self, ev, order):
        type(self).FILLS.append((ev, order.type, order.side, order.qty, order.price,
                                 int((order.executed_at - T0) // 60000) - 1, self.price))

    def should_long(self): return self.index == 0
    def should_short(self): return False
    def should_cancel_entry(self): return False
    def go_short(self): pass
    def on_open_position(self, order): self._log('open', order)
    def on_close_position(self, order): self._log('close', order)


class Liquidate(Base):
    """two entry legs; when the second one fills, leave at market"""
    def go_long(self):
        self.buy = [(1, p) for p in self.LEGS]

    def on_increased_position(self, order):
        self._log('increased', order)
        self.liquidate()


class TakeProfit(Base):
    """two entry legs with a stop at 92; when the second one fills, declare a take-profit at 105.01"""
    def go_long(self):
        self.buy = [(1, p) for p in self.LEGS]
        self.stop_loss = (2, 92)

    def on_increased_position(self, order):
        self._log('increased', order)
        self.take_profit = (2, 105.01)


FLAT = (100, 100, 100, 100)
# minute 5 (rising candle: 100 -> low -> high -> close); everything else is flat
ROWS_1 = [FLAT] * 5 + [(100, 105, 110, 90)] + [(105, 105, 105, 105)] * 9      # path 100 -> 90 -> 110 -> 105
ROWS_2 = [FLAT] * 5 + [(100, 105, 105, 90)] + [(105, 105, 105, 105)] * 9      # path 100 -> 90 -> 105

violations = []


def session(cls, legs, rows, fast, tf):
    cls.FILLS = []
    cls.LEGS = legs
    run(cls, rows, fast, tf)
    return list(cls.FILLS)


for fast, tf in ((False, '1m'), (False, '5m'), (True, '5m')):
    sim = f"{'fast' if fast else 'step'} simulator, {tf}"

    # ---- 1. MARKET order from the handler of the second leg -------------------------------------
    ctrl = session(Liquidate, (95, 94.9), ROWS_1, fast, tf)      # control: distinct prices
    dup = session(Liquidate, (95, 95), ROWS_1, fast, tf)         # the two legs share one price
    m_ctrl = [f for f in ctrl if f[1] == 'MARKET'][0]
    m_dup = [f for f in dup if f[1] == 'MARKET'][0]
    seen = [f for f in dup if f[0] == 'increased'][0][6]
    print(f'[{sim}] legs 95/94.9: market exit filled at {m_ctrl[4]} (minute {m_ctrl[5]})   '
          f'legs 95/95: market exit filled at {m_dup[4]} (minute {m_dup[5]}), strategy.price in the handler = {seen}')
    if m_dup[4] != 95:
        violations.append(
            f'{sim}: MARKET order submitted from the handler of the 2nd leg (filled at 95 on the way 100->90) '
            f'was filled at {m_dup[4]}, the close of the minute, not at the current price 95')

    # ---- 2. take-profit declared from the same handler ------------------------------------------
    ctrl = session(TakeProfit, (95, 94.9), ROWS_2, fast, tf)
    dup = session(TakeProfit, (95, 95), ROWS_2, fast, tf)
    c_ctrl = [f for f in ctrl if f[0] == 'close'][0]
    c_dup = [f for f in dup if f[0] == 'close'][0]
    print(f'[{sim}] legs 95/94.9: position closed by {c_ctrl[1]} at {c_ctrl[4]}   '
          f'legs 95/95: position closed by {c_dup[1]} at {c_dup[4]} in minute {c_dup[5]} whose range is [90, 105]')
    if c_dup[4] == 105.01 and c_dup[5] == 5:
        violations.append(
            f'{sim}: take-profit declared at 105.01 was filled at 105.01 in minute 5 whose range [90, 105] does not '
            f'contain it (price at that moment: 95; the stop at 92, reached next by the path, never filled)')

if violations:
    print('\nC02 VIOLATED:')
    for v in violations:
        print('  -', v)
    sys.exit(1)
print('\nno violation reproduced')
sys.exit(0)
