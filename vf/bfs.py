"""ENGINE B - explicit-state breadth-first search over operation histories on real objects.

A *system* is a class with
    __init__(cfg)            builds fresh real objects (+ reference model)
    enabled() -> [op]        legal operations in the current state (decided by the reference model)
    apply(op) -> status      'ok' | 'end' (history ends, e.g. an expected rejection)
                             appends (clause, signature, message) tuples to self.problems
    check() -> None          state invariants / comparison with the reference, appends to self.problems
    canon() -> hashable      canonical form of the IMPLEMENTATION state (every field an operation reads)
A state is represented by a history that reaches it; live jesse objects do not deep-copy, so every
successor is built by replaying history+op on fresh objects (stateless exploration with state matching).
"""
import collections
import hashlib
import pickle

from . import core
from .core import Violation

_SYS = {}


def register(name, cls):
    _SYS[name] = cls


def _build(sysname, cfg, hist):
    s = _SYS[sysname](cfg)
    status = 'ok'
    for op in hist:
        status = s.apply(op)
        if status != 'ok' or s.problems:
            break
    return s, status


def _key(k):
    return hashlib.blake2b(pickle.dumps(k, protocol=4), digest_size=12).digest()


def _expand(args):
    """Expand a chunk of frontier histories by one operation each way; returns successor records."""
    sysname, cfg, hists = args
    recs = []      # (history, key | None, status, problems)
    execs = 0
    counts = collections.Counter()
    for h in hists:
        base, st = _build(sysname, cfg, h)
        execs += 1
        if st != 'ok' or base.problems:
            continue
        for op in base.enabled():
            h2 = tuple(h) + (op,)
            s, st = _build(sysname, cfg, h2)
            execs += 1
            counts[str(op[0])] += 1
            if st == 'ok' and not s.problems:
                s.check()
            if s.problems:
                recs.append((h2, None, 'viol', [(c, dict(sig), m) for c, sig, m in s.problems]))
            elif st == 'end':
                counts['end:' + str(getattr(s, 'end_reason', ''))] += 1
                recs.append((h2, None, 'end', None))
            else:
                recs.append((h2, _key(s.canon()), 'ok', None))
    return recs, execs, dict(counts)


def search(ctx, sysname, cfg, depth, cap_states=0):
    """Level-synchronous parallel BFS with global state matching in the parent."""
    cov = ctx.coverage
    s0, _ = _build(sysname, cfg, ())
    s0.check()
    for clause, sig, msg in s0.problems:
        ctx.add(Violation(clause, dict(sig, clause=clause), {'cfg': cfg, 'history': []}, msg))
    seen = {_key(s0.canon())}
    level = [()]
    sigs = set()
    d = 0
    last = ()
    while level and d < depth:
        d += 1
        n = max(1, min(64, len(level) // (core.NPROC * 4) or 1))
        jobs = [(sysname, cfg, c) for c in core.chunks(level, n)]
        nxt = []
        for recs, execs, counts in core.pmap(_expand, jobs, chunksize=1):
            cov['traces_validated_against_impl'] += execs
            ctx.merge_counts(counts)
            for h2, k, st, probs in recs:
                cov['transitions'] += 1
                if st == 'viol':
                    for clause, sig, msg in probs:
                        sig = dict(sig, clause=clause)
                        ctx.count('violation:' + clause)
                        sk = repr(sorted(sig.items()))
                        if sk in sigs:
                            ctx.total_violations += 1
                            continue
                        sigs.add(sk)
                        ctx.add(Violation(clause, sig, {'cfg': cfg, 'history': list(h2)}, msg))
                elif st == 'ok' and k not in seen:
                    seen.add(k)
                    nxt.append(h2)
                    last = h2
        level = nxt
        cov['bounds'].setdefault('levels', {}).setdefault(repr(cfg), []).append(len(nxt))
        if cap_states and len(seen) >= cap_states and d < depth:
            cov['exhaustive'] = False
            cov['bounds']['capped_at_depth'] = d
            break
    cov['states'] += len(seen)
    if last:
        ctx.sample({'cfg': cfg, 'history': list(last)}, limit=4)
    return len(seen)


def replay(sysname, cfg, hist):
    s, st = _build(sysname, cfg, [tuple(o) if isinstance(o, list) else o for o in hist])
    if st == 'ok' and not s.problems:
        s.check()
    return [Violation(c, dict(sig, clause=c), {'cfg': cfg, 'history': hist}, m) for c, sig, m in s.problems]
