"""
Audit C16 - "Reported metrics are consistent with the trades and the equity series".

Counterexample: in the fast simulator (research.backtest(..., fast_mode=True)) the daily equity
sample is taken only at the end of a chunk whose FIRST minute index is a multiple of 1440
(jesse/modes/backtest_mode.py::_skip_simulator, `if i != 0 and i % 1440 == 0`), and the chunk is
gcd(route timeframes) minutes long.

 (A) with only routes of a timeframe above one day ('3D', '1W', '1M') the chunk is 4320 / 10080 /
     43200 minutes: ONE sample is stored per 3 / 7 / 30 simulated days instead of one per day.
     metrics.trades() still labels the samples one day apart, so annual return (CAGR), Sharpe,
     Sortino, Calmar ... are computed on 3-day returns treated as daily returns.
 (B) with a '1D' route the number of samples is right, but sample k is the equity of day k+1
     (taken 1440 minutes late) and the last two samples are both the final equity.

The normal simulator, on the very same input, yields one sample per day.

exit 1 = violation observed, exit 0 = property holds.
"""
import sys
import warnings

import numpy as np

warnings.filterwarnings('ignore')

import jesse.helpers as jh
from jesse import research
from jesse.strategies import Strategy

T0 = 1609459200000  # 2021-01-01T00:00:00Z
DAYS = 12
N = 1440 * DAYS
START = 10_000.0


def candles():
    # deterministic ramp: the close of minute j is 100 + 0.01 * (j + 1), no gaps
    j = np.arange(N)
    open_ = 100 + 0.01 * j
    close = 100 + 0.01 * (j + 1)
    return np.column_stack([T0 + j * 60_000, open_, close, close, open_, np.full(N, 10.0)])


class BuyOnceAndHold(Strategy):
    """buys 1 unit at market at its first execution and holds it until the end of the session"""

    def should_long(self):
        return True

    def should_short(self):
        return False

    def should_cancel_entry(self):
        return False

    def go_long(self):
        self.buy = 1, self.price


def run(timeframe, fast):
    jh.CACHED_CONFIG.clear()
    config = {'starting_balance': START, 'fee': 0, 'type': 'futures', 'futures_leverage': 1,
              'futures_leverage_mode': 'cross', 'exchange': 'Sandbox', 'warm_up_candles': 0}
    routes = [{'exchange': 'Sandbox', 'strategy': BuyOnceAndHold, 'symbol': 'BTC-USDT', 'timeframe': timeframe}]
    cd = {'Sandbox-BTC-USDT': {'exchange': 'Sandbox', 'symbol': 'BTC-USDT', 'candles': candles()}}
    r = research.backtest(config, routes, [], cd, fast_mode=fast, generate_equity_curve=True)
    eq = [d['value'] for d in r['equity_curve'][0]['data']]
    return eq, r['metrics']


def equity_at(minute, entry_minute):
    """equity after `minute` simulated minutes, for 1 unit bought at the close of minute index entry_minute-1"""
    if minute < entry_minute:
        return START
    price = lambda m: 100 + 0.01 * m  # close after m minutes
    return START + price(minute) - price(entry_minute)


violations = []

# ---------------------------------------------------------------- (A) one sample per simulated day
for tf, tf_minutes in (('3D', 4320), ('1W', 10080)):
    eq_n, m_n = run(tf, fast=False)
    eq_f, m_f = run(tf, fast=True)
    true_cagr = ((eq_f[-1] / eq_f[0]) ** (365 / DAYS) - 1) * 100
    print(f'[{tf}] {DAYS} simulated days, expected {DAYS + 1} equity samples (one per day + the final one)')
    print(f'     normal simulator: {len(eq_n)} samples, annual_return={m_n["annual_return"]:.4f}%')
    print(f'     fast   simulator: {len(eq_f)} samples, annual_return={m_f["annual_return"]:.4f}%'
          f'   (CAGR over the {DAYS} real days: {true_cagr:.4f}%)')
    print(f'     first/last equity identical in both: {eq_n[0] == eq_f[0] and abs(eq_n[-1] - eq_f[-1]) < 1e-9}')
    if len(eq_f) != DAYS + 1:
        violations.append(
            f'fast_mode, single {tf} route, {DAYS} days: the equity series has {len(eq_f)} samples instead of '
            f'{DAYS + 1} ("one sample per simulated day plus the final one"); the samples are {tf_minutes // 1440} '
            f'days apart but are treated as daily returns: annual_return {m_f["annual_return"]:.4f}% reported, '
            f'{true_cagr:.4f}% by definition on the {DAYS}-day span (normal simulator: {m_n["annual_return"]:.4f}%)')
    if len(eq_n) != DAYS + 1:
        violations.append(f'normal simulator, {tf}: {len(eq_n)} samples instead of {DAYS + 1}')

# ---------------------------------------------------------------- (B) sample k is the equity of day k
eq_n, m_n = run('1D', fast=False)
eq_f, m_f = run('1D', fast=True)
# the strategy executes for the first time when the first 1D candle closes (after 1440 minutes)
exp_daily = [START] + [equity_at(1440 * k, 1440) for k in range(1, DAYS)] + [equity_at(N, 1440)]
print(f'[1D] sample k should be the equity at day k (tolerance: one minute of price move = 0.01)')
print('     expected     :', [round(x, 2) for x in exp_daily])
print('     normal       :', [round(x, 2) for x in eq_n])
print('     fast         :', [round(x, 2) for x in eq_f])
off_n = max(abs(a - b) for a, b in zip(eq_n, exp_daily))
off_f = max(abs(a - b) for a, b in zip(eq_f, exp_daily))
print(f'     max deviation: normal {off_n:.2f}, fast {off_f:.2f}; sharpe normal {m_n["sharpe_ratio"]:.4f} vs fast {m_f["sharpe_ratio"]:.4f}')
if len(eq_f) != len(exp_daily) or off_f > 0.011:
    violations.append(
        f'fast_mode, 1D route: daily sample k is the equity of day k+1 (deviation {off_f:.2f} = one full day of price move, '
        f'normal simulator {off_n:.2f}); the last two samples are both the final equity '
        f'({eq_f[-2]:.2f}, {eq_f[-1]:.2f}) ("each sample equals the account equity at that moment")')

if violations:
    print('\nC16 VIOLATED:')
    for v in violations:
        print(' -', v)
    sys.exit(1)

print('\nC16 holds on these inputs')
sys.exit(0)
