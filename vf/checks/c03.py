"""C03 - futures account equals an average-cost margin account model.

Engine B on the real FuturesExchange / Position / Order / OrdersState objects (two symbols sharing one
wallet), with the real strategy event path attached (closing a position cancels what rests on that symbol).
Reference: ~60 lines of exact rational arithmetic, see class Ref.
"""
from fractions import Fraction as F
from decimal import Decimal

from .. import core, bfs

ID = 'C03'
SYMS = ('BTC-USDT', 'ETH-USDT')
REL = 1e-9


EXACT_BINARY = [False]


def fr(x):
    # the number a float stands for: its decimal reading (0.1 means one tenth) - or, in the full-precision configuration, the
    # binary value itself (q / 2 means exactly half of q)
    if EXACT_BINARY[0]:
        return F(float(x))
    return F(Decimal(str(float(x))))


def near(a, b, rel=REL, abs_=1e-9):
    a = float(a)
    b = float(b)
    return abs(a - b) <= max(abs_ * 1e-3, rel * max(abs(a), abs(b)))


class Ref:
    """Average-cost margin account: fee on the filled quantity of every fill, PnL realised on reductions,
    closes and flips, reduce-only fills never increase or flip."""

    def __init__(self, L, fee, bal, syms, price):
        self.L = F(L)
        self.fee = fr(fee)
        self.w = fr(bal)
        self.q = {s: F(0) for s in syms}
        self.e = {s: None for s in syms}
        self.cur = {s: fr(price) for s in syms}
        self.orders = []
        self.flags = set()
        self.events = []

    def upnl(self, s):
        return F(0) if self.q[s] == 0 else (self.cur[s] - self.e[s]) * self.q[s]

    def avail(self):
        m = self.w
        for s in self.q:
            if self.q[s] != 0:
                m -= self.e[s] * abs(self.q[s]) / self.L - self.upnl(s)
            b = sum(abs(o['q']) * o['p'] for o in self.orders if o['live'] and o['s'] == s and not o['ro'] and o['q'] > 0)
            a = sum(abs(o['q']) * o['p'] for o in self.orders if o['live'] and o['s'] == s and not o['ro'] and o['q'] < 0)
            m -= max(a, b) / self.L
        return m

    def submit(self, s, q, p, ro):
        """returns (accepted, need, have)"""
        need = abs(q) * p / self.L
        have = self.avail()
        if not ro and need > have:
            return False, need, have
        self.orders.append({'s': s, 'q': q, 'p': p, 'ro': ro, 'live': True, 'st': 'ACTIVE'})
        return True, need, have

    def cancel(self, i):
        if self.orders[i]['live']:
            self.orders[i]['st'] = 'CANCELED'
        self.orders[i]['live'] = False

    def execute(self, i):
        o = self.orders[i]
        if not o['live']:
            return
        o['live'] = False
        o['st'] = 'EXECUTED'
        s, q, p = o['s'], o['q'], o['p']
        pos = self.q[s]
        # how much of the order actually fills
        if o['ro']:
            if pos * q >= 0:
                filled = F(0)
            else:
                filled = q if abs(q) <= abs(pos) else -pos
            if filled != q:
                self.flags.add('reduce_only_fill_smaller_than_order')
        else:
            filled = q
        self.w -= abs(filled) * p * self.fee
        if filled == 0:
            return
        if pos == 0:
            self.q[s] = filled
            self.e[s] = p
            self.events.append((s, 'open'))
        elif pos * filled > 0:
            self.e[s] = (abs(filled) * p + abs(pos) * self.e[s]) / (abs(filled) + abs(pos))
            self.q[s] = pos + filled
            self.events.append((s, 'increase'))
        elif abs(filled) < abs(pos):
            self.w += (p - self.e[s]) * (-filled)
            self.q[s] = pos + filled
            self.events.append((s, 'reduce'))
        else:
            self.w += (p - self.e[s]) * pos
            rest = pos + filled
            self.events.append((s, 'close'))
            if rest == 0:
                self.q[s] = F(0)
                self.e[s] = None
                for x in self.orders:      # strategy layer: everything resting on the symbol is cancelled
                    if x['s'] == s and x['live']:
                        x['live'] = False
                        x['st'] = 'CANCELED'
            else:                          # flip: the remainder opens the opposite position
                self.flags.add('flip')
                self.q[s] = rest
                self.e[s] = p
                self.events.append((s, 'open'))


class FutSys:
    def __init__(self, cfg):
        from .. import acct
        self.acct = acct
        self.cfg = cfg
        EXACT_BINARY[0] = bool(cfg.get('exact_binary'))
        self.syms = SYMS[:cfg['nsym']]
        self.P = cfg['P']
        self.u = cfg['u']
        self.api, self.ex, self.pos = acct.fresh('futures', cfg['fee'], cfg['balance'], leverage=cfg['L'], mode='cross',
                                                 symbols=self.syms, price=self.P)
        self.ref = Ref(cfg['L'], cfg['fee'], cfg['balance'], self.syms, self.P)
        self.objs = []
        self.problems = []
        self.end_reason = ''

    # ---------------------------------------------------------------- alphabet
    def enabled(self):
        c = self.cfg
        P, u = self.P, self.u
        ops = []
        live = [i for i, o in enumerate(self.ref.orders) if o['live']]
        if not self.ref.orders and c.get('ladder'):
            for n in c['ladder']:
                ops.append(('ladder', n))
        if len(live) < c['max_live']:
            for s in self.syms:
                pos = self.ref.q[s]
                for side in ('buy', 'sell'):
                    sg = 1 if side == 'buy' else -1
                    for pr in c['prices']:
                        for q in c['qtys']:
                            ops.append(('sub', s, side, q * u, 'M' if pr == 'M' else pr * P, False))
                            if pos != 0 and pos * sg < 0:
                                ops.append(('sub', s, side, q * u, 'M' if pr == 'M' else pr * P, True))
            if c.get('probe'):
                ops.append(('probe', self.syms[0], 'buy', 1.0 * u, 0.9 * P))
                ops.append(('probe', self.syms[-1], 'sell', 2.0 * u, 1.1 * P))
        for i in live:
            ops.append(('exe', i))
            ops.append(('can', i))
        for s in self.syms:
            if self.ref.q[s] != 0:
                for m in c['marks']:
                    if fr(m * P) != self.ref.cur[s]:
                        ops.append(('mark', s, m * P))
        return ops

    # ---------------------------------------------------------------- transitions
    def _place(self, s, side, q, price, ro):
        from jesse import exceptions
        if price == 'M':
            fn, pr = self.api.market_order, self.pos[s].current_price
        else:
            cur = self.pos[s].current_price
            better = (price < cur) if side == 'buy' else (price > cur)
            fn, pr = (self.api.limit_order if better else self.api.stop_order), price
        qf = fr(q) if side == 'buy' else -fr(q)
        ok, need, have = self.ref.submit(s, qf, fr(pr), ro)
        dontcare = (not ro) and near(need, have)
        try:
            o = fn(s, q, pr, side, ro)
            acc = True
        except exceptions.InsufficientMargin:
            acc = False
            o = None
        if acc != ok and not dontcare:
            self.problems.append(('rejection', {'impl': 'accepted' if acc else 'rejected', 'reduce_only': ro},
                                  'submit %s %s qty=%r price=%r reduce_only=%s was %s; model: needs %r, available margin %r (impl says %r)'
                                  % (s, side, q, pr, ro, 'accepted' if acc else 'rejected', float(need), float(have), self.ex.available_margin)))
            return None, 'viol'
        if acc != ok:   # inside the dont-care band: follow the implementation
            if acc:
                self.ref.orders.append({'s': s, 'q': qf, 'p': fr(pr), 'ro': ro, 'live': True, 'st': 'ACTIVE'})
            else:
                self.ref.orders.pop()
        if not acc:
            return None, 'end'
        self.objs.append(o)
        return o, 'ok'

    def apply(self, op):
        from jesse import exceptions
        from jesse.store import store
        try:
            kind = op[0]
            if kind == 'sub':
                _, s, side, q, price, ro = op
                o, st = self._place(s, side, q, price, ro)
                if st == 'end':
                    self.end_reason = 'rejected'
                    return 'end'
                if st == 'viol':
                    return 'ok'
                if price == 'M':
                    self.after_market_submit()
            elif kind == 'ladder':
                for k in range(op[1]):
                    o, st = self._place(self.syms[0], 'buy', 0.1 * self.u, (0.9 - 0.001 * k) * self.P, False)
                    if st != 'ok':
                        self.end_reason = 'rejected'
                        return 'end' if st == 'end' else 'ok'
            elif kind == 'probe':
                _, s, side, q, price = op
                before = self.ex.available_margin
                o, st = self._place(s, side, q, price, False)
                if st == 'end':
                    self.end_reason = 'rejected'
                    return 'end'
                if st == 'viol':
                    return 'ok'
                o.cancel()
                self.ref.cancel(len(self.ref.orders) - 1)
                after = self.ex.available_margin
                if before != after:
                    self.problems.append(('submit-cancel-restores-margin', {}, 'available margin %r before, %r after submit+cancel of %s' % (before, after, op)))
            elif kind == 'exe':
                self.objs[op[1]].execute()
                self.ref.execute(op[1])
            elif kind == 'can':
                self.objs[op[1]].cancel()
                self.ref.cancel(op[1])
            elif kind == 'mark':
                self.pos[op[1]].current_price = float(op[2])
                self.ref.cur[op[1]] = fr(op[2])
            return 'ok'
        except Exception as e:
            self.problems.append(('unexpected-exception', {'op': op[0], 'exc': type(e).__name__}, '%s raised %r' % (op, e)))
            return 'ok'

    def after_market_submit(self):
        from jesse.store import store
        store.orders.execute_pending_market_orders()
        self.ref.execute(len(self.ref.orders) - 1)

    # ---------------------------------------------------------------- oracle
    def check(self):
        ex, ref = self.ex, self.ref
        sig = {k: True for k in sorted(ref.flags) if k != 'flip'}
        if self.cfg.get('exact_binary'):
            sig['full_precision_quantities'] = True
        if not near(ex.wallet_balance, ref.w):
            self.problems.append(('wallet', sig, 'wallet %r, model %r' % (ex.wallet_balance, float(ref.w))))
        for s in self.syms:
            p = self.pos[s]
            if p.is_open != (ref.q[s] != 0):
                self.problems.append(('position-open-flag', sig, '%s position is_open=%s with qty %r, model qty %r' % (s, p.is_open, p.qty, float(ref.q[s]))))
            elif not near(p.qty, ref.q[s], abs_=1e-9):
                self.problems.append(('position-qty', sig, '%s qty %r, model %r' % (s, p.qty, float(ref.q[s]))))
            elif ref.q[s] != 0:
                if p.entry_price is None or not near(p.entry_price, ref.e[s]):
                    self.problems.append(('entry-price', sig, '%s entry %r, model %r' % (s, p.entry_price, float(ref.e[s]))))
                if not near(p.pnl, ref.upnl(s), abs_=1e-6):
                    self.problems.append(('unrealised-pnl', sig, '%s pnl %r, model %r' % (s, p.pnl, float(ref.upnl(s)))))
        if not self.problems and not near(ex.available_margin, ref.avail(), abs_=1e-6):
            self.problems.append(('available-margin', sig, 'available margin %r, model %r' % (ex.available_margin, float(ref.avail()))))
        live_impl = [i for i, o in enumerate(self.objs) if o.is_active]
        live_ref = [i for i, o in enumerate(ref.orders) if o['live']]
        if live_impl != live_ref:
            self.problems.append(('live-orders', sig, 'active orders %s, model %s' % (live_impl, live_ref)))

    def canon(self):
        k = self.acct.canon_common(self.ex, self.pos, self.objs)
        for a in sorted(self.ex.buy_orders):
            k.append((a, self.acct.physical(self.ex.buy_orders[a]), self.acct.physical(self.ex.sell_orders[a])))
        return tuple(k)


bfs.register('futures', FutSys)


def configs(ctx):
    base, tick, u = ctx.embedding
    P = base
    bal = 300.0 * (P / 100.0) * u
    out = []
    rich = {'balance': bal, 'nsym': 1, 'P': P, 'u': u, 'max_live': 2, 'prices': [0.9, 1.1, 'M'], 'qtys': [1.0, 2.0],
            'marks': [0.95, 1.05], 'probe': True, 'ladder': [9, 10, 11]}
    lean = {'balance': bal, 'nsym': 1, 'P': P, 'u': u, 'max_live': 2, 'prices': [1.1, 'M'], 'qtys': [1.0, 2.0],
            'marks': [0.95], 'probe': False}
    two = {'balance': bal / 2, 'nsym': 2, 'P': P, 'u': u, 'max_live': 2, 'prices': [0.9, 'M'], 'qtys': [1.0],
           'marks': [1.05], 'probe': False}
    # full-precision quantities (a size computed from balance and price, and exact halves of it): the reference reads them as
    # the binary numbers they are
    fp = dict(lean, L=3, fee=0.0, qtys=[1.1254924029262803, 1.1254924029262803 / 2], prices=['M'], marks=[], exact_binary=True)
    out.append((fp, 4 if ctx.quick else 5))
    if ctx.quick:
        out.append((dict(rich, L=2, fee=0.001), 4))
        out.append((dict(lean, L=10, fee=0.001), 5))
        out.append((dict(two, L=5, fee=0.0), 5))
        out.append((dict(lean, L=3, fee=0.001, qtys=[0.1, 0.2, 0.3], prices=['M'], marks=[]), 5))     # quantities that do not sum exactly in binary
    else:
        out.append((dict(lean, L=3, fee=0.001, qtys=[0.1, 0.2, 0.3], prices=[0.9, 1.1, 'M'], marks=[]), 5))
        for L, fee in ((1, 0.001), (2, 0.001), (10, 0.0)):
            out.append((dict(rich, L=L, fee=fee), 5))
        out.append((dict(rich, L=3, fee=0.001, max_live=3, qtys=[1.0, 2.0, 0.5]), 4))
        out.append((dict(lean, L=10, fee=0.001), 6))
        out.append((dict(two, L=5, fee=0.001, prices=[0.9, 1.1, 'M']), 5))
        out.append((dict(two, L=5, fee=0.0), 6))
    return out


def run(ctx):
    cfgs = configs(ctx)
    for cfg, depth in cfgs:
        bfs.search(ctx, 'futures', cfg, depth)
    cov = ctx.coverage
    cov['evaluations'] = cov['transitions']
    cov['distinct_nontrivial'] = cov['states']
    cov['rule'] = ('BFS over submit/execute/cancel/mark histories on the real futures exchange, positions and orders; distinct = canonical '
                   'implementation states (wallet, margin tables incl. physical capacity, positions, every order, registries, trade tables); '
                   'every state compared with the exact average-cost margin account')
    cov['bounds'].update({'configs': [{'cfg': c, 'depth': d} for c, d in cfgs]})
    ctx.assumptions += ['reduce-only orders are only submitted on the closing side of an open position; closing a position cancels what rests on that symbol (real strategy close path)',
                        'MARKET submission and its flush are one atomic step here (their interleavings belong to C05)',
                        'rejection verdicts within 1e-9 relative of the threshold are dont-care',
                        'LIMIT vs STOP is chosen by the price relation to the current price, as the strategy layer does']


def replay(case, ctx):
    return bfs.replay('futures', case['cfg'], [tuple(o) for o in case['history']])
