#!/bin/bash
# usage (background): vp run --with-repo -- tools/regress_seeds.sh   - every recorded seed against the current checks, on the run's own repo snapshot
cd "$(dirname "$(readlink -f "$0")")/.." || exit 2
R=${VP_RUN_REPO:?needs a repo snapshot}
export VERIF_REPO=$R
for d in seeded/*/; do
  n=$(basename $d); prop=$(/venv/bin/python -c "import json;print(json.load(open('$d/meta.json'))['breaks_property'])" 2>/dev/null) || continue
  git -C $R apply "$(pwd)/$d/patch.diff" 2>/dev/null || { echo "$n $prop PATCH-DOES-NOT-APPLY"; continue; }
  out=$(./check $prop --tier quick 2>&1); rc=$?
  git -C $R checkout -- . 
  neut=$(grep -c neutralised_by_repair $d/meta.json)
  echo "$n $prop rc=$rc viol=$(echo "$out" | grep -c '^VIOLATION') neutralised=$neut"
done
