"""C08 - fills inside one minute follow a single continuous price path; split_candle is well-formed.

Engine C: split_candle on every valid (o,h,l,c) of a 5-level lattice x every split price on the lattice and on its
half-steps inside [l,h].  Engine A: a probe minute after a flat lead-in - every arrangement of previous close / open /
high / low / close on the lattice x exit orders on lattice and half-step prices (ties, prices equal to O/H/L/C) x reaction
policies (stop to break-even / new stop+target after a partial fill) x long/short; the oracle (vf/fills.py:c08) demands that
the real sequence of Order.execute calls in that minute is a monotone walk along the path, reaction orders only after
the fill that created them.  The same oracle also runs on the C02 word sessions (normal simulator).
"""
import itertools

import numpy as np

from .. import core, session as S, fills, progs
from ..core import Violation

ID = 'C08'
LEVELS = [1, 2, 3, 4, 5]


def valid_candles(levels):
    for o, c in itertools.product(levels, repeat=2):
        for h in levels:
            for l in levels:
                if l <= min(o, c) and h >= max(o, c):
                    yield (o, h, l, c)


def _split_all(scale):
    from jesse.services.candle import split_candle
    base, tick = (0.0, 1.0) if not scale else (scale[0], scale[1])
    out = {'n': 0, 'viols': []}
    seen = set()

    def bad(clause, sig, case, msg):
        k = (clause, repr(sorted(sig.items())))
        if k in seen:
            return
        seen.add(k)
        out['viols'].append(Violation(clause, sig, case, msg).to_json())

    for (o, h, l, c) in valid_candles(LEVELS):
        prices = sorted({l + k * 0.5 for k in range(int((h - l) * 2) + 1)})
        for p in prices:
            out['n'] += 1
            case = {'split': [o, h, l, c], 'price': p, 'scale': list(scale) if scale else None}
            o_, h_, l_, c_, p_ = (base + tick * x for x in (o, h, l, c, p))
            cand = np.array([1000.0, o_, c_, h_, l_, 7.0])
            try:
                res = split_candle(cand.copy(), float(p_))
            except Exception as e:
                bad('split-raises', {'exc': type(e).__name__}, case, 'split_candle raised %r' % (e,))
                continue
            rel = 'open' if p == o else 'close' if p == c else 'high' if p == h else 'low' if p == l else 'inside'
            bull = c >= o
            if res is None or len(res) != 2 or res[0] is None or res[1] is None:
                bad('split-none', {'price_at': rel, 'bullish': bull}, case, 'split_candle(%s, %r) returned %r' % ((o, h, l, c), p, res))
                continue
            a, b = res
            for name, part in (('earlier', a), ('later', b)):
                if not (part[4] <= min(part[1], part[2]) and max(part[1], part[2]) <= part[3]):
                    bad('split-invalid-part', {'part': name, 'price_at': rel, 'bullish': bull}, case,
                        '%s part of split(%s, %r) is not a valid candle: o=%r c=%r h=%r l=%r' % (name, (o, h, l, c), p, part[1], part[2], part[3], part[4]))
            if a[1] != o_ or b[2] != c_ or max(a[3], b[3]) != h_ or min(a[4], b[4]) != l_:
                bad('split-loses-extreme', {'price_at': rel, 'bullish': bull}, case,
                    'split(%s, %r) = %s | %s does not keep open/close/high/low' % ((o, h, l, c), p, a[1:5].tolist(), b[1:5].tolist()))
            if p != o and (a[2] != p_ or b[1] != p_):
                bad('split-parts-do-not-meet', {'price_at': rel, 'bullish': bull}, case,
                    'split(%s, %r): earlier closes at %r, later opens at %r' % ((o, h, l, c), p, a[2], b[1]))
    return out


def probe_programs(tick, unit):
    P = []
    for side in ('long', 'short'):
        # the last menu has two exits at one price: once the first has filled, the rest of the minute OPENS exactly at the second
        for tp in ([[2, 0.5]], [[2, 1]], [[2, 2]], [[1, 0.5], [1, 1]], [[1, 1], [1, 2]], [[1, 0.5], [1, 2]], [[0.5, 1], [0.5, 1], [1, 2]]):
            for sl in ([[2, 0.5]], [[2, 1]], [[2, 2]]):
                reacts = [None] if len(tp) != 2 else [None, {'sl': 'breakeven'}, {'sl': 'all', 'sl_d': 0.5, 'tp': 'all', 'tp_d': 1.5},
                                                           {'sl': 'all', 'sl_d': -0.5, 'tp': 'all', 'tp_d': 1.5}, {'sl': 'all', 'sl_d': -0.5, 'tp': 'all', 'tp_d': 2},
                                                           {'liquidate': True}, {'reenter': [[1, 0]]}]      # MARKET orders from the fill handler
                for rc in reacts:
                    name = '%s tp%s sl%s react%s' % (side, tp, sl, 'N' if rc is None else 'B' if rc.get('sl') == 'breakeven' else 'L' if rc.get('liquidate') else 'R' if rc.get('reenter')
                                                      else 'X%s/%s' % (rc['sl_d'], rc['tp_d']))
                    spec = {'tick': tick, 'unit': unit, 'side': side, 'enter': {'when': {'at': [0]}, 'legs': [[2, 0]]},
                            'on_open': {'sl': sl, 'tp': tp}, 'cancel_entry': True}
                    if rc:
                        spec['on_reduced'] = rc
                    P.append((name, spec))
    return P


def build_probe(candle, spec, emb):
    base, tick, unit = emb
    o, h, l, c = candle
    rows = [[S.TS0, base + 3 * tick, base + 3 * tick, base + 3 * tick, base + 3 * tick, 5.0],
            [S.TS0 + 60000, base + o * tick, base + c * tick, base + h * tick, base + l * tick, 6.0],
            [S.TS0 + 120000, base + c * tick, base + c * tick, base + c * tick, base + c * tick, 7.0]]
    return {'cfg': {'type': 'futures', 'fee': 0.0, 'leverage': 2, 'balance': 100 * (base + 5 * tick) * unit},
            'routes': [{'symbol': 'BTC-USDT', 'timeframe': '1m', 'spec': spec}], 'candles': {'BTC-USDT': rows}, 'fast': False, 'observe': 0}


def _probe(args):
    candle, pname, spec, emb = args
    case = build_probe(candle, spec, emb)
    r = S.run_session(case)
    ident = {'probe_candle': list(candle), 'program': pname, 'embedding': list(emb)}
    out = {'viols': [], 'stats': {}, 'nontrivial': False}
    if r['error']:
        out['viols'].append(Violation('unexpected-exception', {'exc': r['error'][0]}, ident, '%s: %s' % r['error'][:2]).to_json())
        return out
    probs, stats = fills.c08(r['trace'], case)
    p2, s2 = fills.c02(r['trace'], case, r['end'])
    out['stats'] = stats
    out['nontrivial'] = stats.get('minutes_with_2plus_fills', 0) > 0
    for clause, sig, msg in probs:
        out['viols'].append(Violation(clause, sig, ident, msg).to_json())
    for clause, sig, msg in p2:
        if clause == 'missed-fill':
            out['viols'].append(Violation('resting-order-skipped', sig, ident, msg).to_json())
    return out


def _word(args):
    from . import c02
    word, pname, prog, kind, emb = args
    case = c02.build_case(word, prog, kind, False, emb)
    r = S.run_session(case)
    ident = {'word': list(word), 'program': pname, 'kind': kind, 'embedding': list(emb)}
    out = {'viols': [], 'stats': {}, 'nontrivial': False}
    if r['error']:
        return out
    probs, stats = fills.c08(r['trace'], case)
    out['stats'] = stats
    out['nontrivial'] = stats.get('minutes_with_2plus_fills', 0) > 0
    for clause, sig, msg in probs:
        out['viols'].append(Violation(clause, sig, ident, msg).to_json())
    return out


def run(ctx):
    cov = ctx.coverage
    emb = ctx.embedding
    for sc in [None, emb] + list(core.SCALES):
        r = _split_all(sc)
        ctx.count('split_candle', r['n'])
        cov['transitions'] += r['n']
        ctx.extend(Violation.from_json(v) for v in r['viols'])
    P = probe_programs(emb[1], emb[2])
    if ctx.quick:
        P = [p for i, p in enumerate(P) if i % 2 == 0 or 'react' in p[0] and not p[0].endswith('N')]
    jobs = [(cd, pn, sp, emb) for cd in valid_candles(LEVELS) for pn, sp in P]
    for sc in core.SCALES:       # micro-priced and very expensive symbols, reduced program menu
        Psc = [p for i, p in enumerate(probe_programs(sc[1], sc[2])) if i % 5 == 0]
        jobs += [(cd, pn, sp, sc) for cd in valid_candles(LEVELS) for pn, sp in Psc]
    sigs = set()
    res = core.pmap(_probe, jobs, chunksize=32)
    sigma, n = (progs.SIGMA6, 3) if ctx.quick else (progs.SIGMA8, 4)
    wjobs = [(w, pn, pr, 'futures', emb) for pn, pr in progs.programs(emb[1], emb[2], 'futures') for w in progs.words(sigma, n)]
    res2 = core.pmap(_word, wjobs, chunksize=64)
    for r in list(res) + list(res2):
        if r['nontrivial']:
            cov['distinct_nontrivial'] += 1
        for k, v in r['stats'].items():
            ctx.count(k, v)
        for v in r['viols']:
            v = Violation.from_json(v)
            ctx.count('violation:' + v.clause)
            if v.sigkey() in sigs:
                ctx.total_violations += 1
                continue
            sigs.add(v.sigkey())
            ctx.add(v)
    nsess = len(jobs) + len(wjobs)
    cov['states'] = nsess + r0(ctx)
    cov['transitions'] += nsess * 3
    cov['traces_validated_against_impl'] = nsess + cov['outcomes'].get('split_candle', 0)
    cov['evaluations'] = cov['traces_validated_against_impl']
    cov['rule'] = ('split_candle: every lattice candle x every lattice/half-step price; sessions: every probe candle x exit-order program, plus word sessions; '
                   'a session is non-trivial when at least two orders were filled inside one minute')
    cov['bounds'] = {'levels': LEVELS, 'prev_close_level': 3, 'probe_candles': len(list(valid_candles(LEVELS))), 'probe_programs': len(P),
                     'word_alphabet': sigma, 'word_length': n}
    ctx.sample({'probe_candle': list(jobs[0][0]), 'program': jobs[0][1]})
    ctx.sample({'probe_candle': list(jobs[-1][0]), 'program': jobs[-1][1]})
    ctx.assumptions += ['path of a minute: previous close -> low -> high -> close when close >= (normalised) open, else previous close -> high -> low -> close',
                        'ties (orders reached at the same path position) may fill in any order']


def r0(ctx):
    return ctx.coverage['outcomes'].get('split_candle', 0)


def replay(case, ctx):
    emb = tuple(case.get('embedding', ctx.embedding))
    if 'split' in case:
        return [Violation.from_json(v) for v in _split_all(tuple(case['scale']) if case.get('scale') else None)['viols'] if v['case']['split'] == case['split'] and v['case']['price'] == case['price']]
    if 'probe_candle' in case:
        P = dict(probe_programs(emb[1], emb[2]))
        return [Violation.from_json(v) for v in _probe((tuple(case['probe_candle']), case['program'], P[case['program']], emb))['viols']]
    P = dict(progs.programs(emb[1], emb[2], case['kind']))
    return [Violation.from_json(v) for v in _word((tuple(case['word']), case['program'], P[case['program']], case['kind'], emb))['viols']]
