#!/bin/bash
# usage: tools/sweep_seeds_some.sh <tier> "<seeds>" <check ids...>
tier=$1; seeds=$2; shift 2
d="$(dirname "$(readlink -f "$0")")"
for s in $seeds; do "$d/sweep_some.sh" $tier $s "$@"; done
