"""
Audit C19 - optimizer DNA decoding.

Property clause violated:
  "Every DNA string over the optimizer's alphabet decodes, for every hyperparameter declaration, into a
   value inside the declared [min, max] ... with the first and last letters of the alphabet mapping to
   min and max."  (quantified over "every (min, max, type) declaration including negative and fractional bounds")

Counterexample: float declaration min=0.1, max=1.0 (also min=0.0, max=0.9, and ~20% of fractional
declarations): the last letter 'w' decodes to 1.0000000000000002 > max, and the strategy of a backtest
(normal and fast simulator; through dna() and through optimize_mode.fitness.get_fitness) is given that value.
For other declarations (e.g. min=0.2, max=0.9) the last letter decodes to a value strictly below max.

Exit 1 when the violation occurs, 0 otherwise.
"""
import sys
import numpy as np
import jesse.helpers as jh
from jesse.strategies import Strategy
from jesse import research
from jesse.modes.optimize_mode import fitness

CHARSET = r'()*+,-./0123456789:;<=>?@ABCDEFGHIJKLMNOPQRSTUVWXYZ[\]^_`abcdefghijklmnopqrstuvw'  # Optimize.py l.36
FIRST, LAST = CHARSET[0], CHARSET[-1]
problems = []


def decode(mn, mx, t, gene):
    return jh.dna_to_hp([{'name': 'x', 'type': t, 'min': mn, 'max': mx, 'default': mn}], gene)['x']


# --- 1. pure decoding -------------------------------------------------------------------------
for mn, mx in [(0.1, 1.0), (0.0, 0.9), (0.001, 0.01), (-3.0, 0.1), (0.2, 0.9), (-3.0, -1.3)]:
    lo, hi = decode(mn, mx, float, FIRST), decode(mn, mx, float, LAST)
    if lo != mn:
        problems.append(f"float[{mn},{mx}]: first letter {FIRST!r} -> {lo!r} != min")
    if hi > mx:
        problems.append(f"float[{mn},{mx}]: last letter {LAST!r} -> {hi!r} > max (outside the declared range)")
    elif hi != mx:
        problems.append(f"float[{mn},{mx}]: last letter {LAST!r} -> {hi!r} != max (last letter does not map to max)")

# --- 2. the value really reaches the strategy of a backtest ---------------------------------------
HP = [{'name': 'risk', 'type': float, 'min': 0.1, 'max': 1.0, 'default': 0.5}]
SEEN = []


def make(dna_str):
    class S(Strategy):
        def hyperparameters(self): return HP
        def dna(self): return dna_str
        def should_long(self):
            SEEN.append(self.hp['risk'])
            return False
        def should_short(self): return False
        def go_long(self): pass
        def go_short(self): pass
        def should_cancel_entry(self): return True
    return S


def candles(n=30, p=100.0):
    return np.array([[1609459200000 + i * 60000, p, p, p + 1, p - 1, 10] for i in range(n)], dtype=float)


cfg = {'starting_balance': 10000, 'fee': 0.001, 'type': 'futures', 'futures_leverage': 2,
       'futures_leverage_mode': 'cross', 'exchange': 'Sandbox', 'warm_up_candles': 0}
cs = {'Sandbox-BTC-USDT': {'exchange': 'Sandbox', 'symbol': 'BTC-USDT', 'candles': candles()}}

for fast in (False, True):
    # through the strategy's dna()
    jh.CACHED_CONFIG.clear(); SEEN.clear()
    S = make(LAST)
    research.backtest(cfg, [{'exchange': 'Sandbox', 'strategy': S, 'symbol': 'BTC-USDT', 'timeframe': '1m'}], [], cs, fast_mode=fast)
    bad = sorted({v for v in SEEN if not (0.1 <= v <= 1.0)})
    if bad:
        problems.append(f"backtest(fast_mode={fast}) with dna()={LAST!r}: strategy sees hp['risk']={bad[0]!r}, declared max 1.0")

    # through the optimizer's fitness function
    jh.CACHED_CONFIG.clear(); SEEN.clear()
    S = make('')
    oc = {'exchange': {'balance': 10000, 'fee': 0.001, 'type': 'futures', 'futures_leverage': 2, 'futures_leverage_mode': 'cross'}}
    routes = [{'exchange': 'Sandbox', 'strategy': S, 'symbol': 'BTC-USDT', 'timeframe': '1m'}]
    fitness.get_fitness(oc, routes, [], S.hyperparameters(None), LAST, None, cs, None, cs, 10, fast)
    bad = sorted({v for v in SEEN if not (0.1 <= v <= 1.0)})
    if bad:
        problems.append(f"get_fitness(fast_mode={fast}) with DNA {LAST!r}: strategy sees hp['risk']={bad[0]!r}, declared max 1.0")

if problems:
    print("C19 VIOLATED: the last letter of the alphabet does not decode to max for float declarations,")
    print("and for many of them decodes to a value ABOVE the declared max:")
    for p in problems:
        print("  -", p)
    sys.exit(1)
print("C19 holds on the audited inputs")
sys.exit(0)
