"""
C07 audit (round 2): a fill corrupts the candles of the timeframes longer than one day (3D, 1W, 1M)
whenever the session does not start on an epoch multiple of that timeframe - which jesse's candle
loader never arranges (it only floors the start date to 00:00 UTC).

Both simulators count their windows from the first candle of the session (index arithmetic,
`(i + 1) % count == 0`), and so do warm-up injection and the forming candle of get_candles().
`_update_all_routes_a_partial_candle` (called at every fill and liquidation) instead derives the window
from the absolute timestamp (`timestamp % (tf_minutes * 60_000)`), i.e. from the unix epoch. For every
timeframe up to 1D the two agree (they all divide a day). For 3D / 1W / 1M they do not.

Exit code 1 + explanation when the violation is observed, 0 otherwise.
"""
import sys
import numpy as np
import jesse.helpers as jh
from jesse.strategies import Strategy
from jesse import research
from jesse.store import store

EX, SYM, TF = 'Sandbox', 'BTC-USDT', '3D'
M = 3 * 1440
START = 1609459200000  # 2021-01-01T00:00:00Z: start of a day (what jesse's loader guarantees), day 18628 since epoch, 18628 % 3 == 1
LOG = []
OFFSET = [0.2]


def aggregate(c1: np.ndarray, m: int) -> np.ndarray:
    """the property's oracle: one candle per started window of m stored 1m candles"""
    out = []
    for s in range(0, len(c1), m):
        w = c1[s:s + m]
        out.append([w[0][0], w[0][1], w[-1][2], w[:, 3].max(), w[:, 4].min(), w[:, 5].sum()])
    return np.array(out)


def observe(tag):
    c1 = np.array(store.candles.get_candles(EX, SYM, '1m'))
    got = np.array(store.candles.get_candles(EX, SYM, TF))
    exp = aggregate(c1, M)
    if got.shape != exp.shape or not np.array_equal(got, exp):
        LOG.append((tag, len(c1), got, exp))


class S(Strategy):
    def should_long(self):
        return self.index == 0

    def should_short(self):
        return False

    def go_long(self):
        # a LIMIT order below the market: it fills 4 minutes later (warm-up scenario) / in minute 3334, i.e.
        # after the epoch 3D boundary 2021-01-03T00:00 which lies 2880 minutes into the session (no warm-up scenario)
        self.buy = 1, self.price - OFFSET[0]

    def should_cancel_entry(self):
        return False

    def on_open_position(self, order):
        observe('on_open_position')

    def before(self):
        observe('before')


def candles(start, n, p0):
    c = np.zeros((n, 6))
    for i in range(n):
        p = p0 - 0.05 * i
        c[i] = [start + i * 60_000, p, p - 0.05, p, p - 0.05, 1]
    return c


def run(fast_mode, warm):
    LOG.clear()
    OFFSET[0] = 0.2 if warm else 1.0
    n = 30 if warm else 4400
    step = 0.05 if warm else 0.0003
    key = f'{EX}-{SYM}'
    if warm:
        w = candles(START - M * 60_000, M, 1000)            # exactly one 3D window of warm-up, as the loader would give
        t = candles(START, n, 1000 - 0.05 * M)
        warmup = {key: {'exchange': EX, 'symbol': SYM, 'candles': w}}
    else:
        t = np.zeros((n, 6))
        for i in range(n):
            p = 100 - step * i
            t[i] = [START + i * 60_000, p, p - step, p, p - step, 1]
        warmup = None
    cfg = {'starting_balance': 1_000_000, 'fee': 0, 'type': 'futures', 'futures_leverage': 1,
           'futures_leverage_mode': 'cross', 'exchange': EX, 'warm_up_candles': 0}
    jh.CACHED_CONFIG.clear()
    research.backtest(
        cfg,
        [{'exchange': EX, 'strategy': S, 'symbol': SYM, 'timeframe': '1m'}],
        [{'exchange': EX, 'symbol': SYM, 'timeframe': TF}],
        {key: {'exchange': EX, 'symbol': SYM, 'candles': t}},
        warmup_candles=warmup,
        fast_mode=fast_mode,
    )
    return list(LOG)


def fmt(a):
    return '\n'.join('        ' + jh.timestamp_to_time(int(r[0]))[:16] + '  o=%.4f c=%.4f h=%.4f l=%.4f v=%g' % tuple(r[1:]) for r in a)


if __name__ == '__main__':
    failed = False
    for warm in (True, False):
        for fast in (False, True):
            log = run(fast, warm)
            name = f"{'fast' if fast else 'normal'} simulator, {'one 3D window of warm-up + 30 minutes' if warm else 'no warm-up, 4400 minutes'}"
            if not log:
                print(f'OK   {name}')
                continue
            failed = True
            tag, n1, got, exp = log[0]
            print(f'FAIL {name}: {len(log)} wrong observations; first in {tag}() with {n1} stored 1m candles')
            print(f'     get_candles(3D) returned {len(got)} candles:\n{fmt(got)}')
            print(f'     aggregation of the stored 1m candles, one per started window ({len(exp)}):\n{fmt(exp)}')
            tag, n1, got, exp = log[-1]
            print(f'     last wrong observation ({tag}, {n1} stored 1m candles): got\n{fmt(got)}\n     expected\n{fmt(exp)}')
    if failed:
        print('\nC07 violated: "a strategy sees exactly one candle per started window" / "every candle ... equals the '
              'aggregation of the one-minute candles of its aligned window": after a fill, a 3D candle of an epoch-aligned '
              'window (not the window every other part of jesse uses) is stored, stays in get_candles() and makes the '
              'completed 3D candle of the real window be dropped.')
        sys.exit(1)
    sys.exit(0)
