"""
Audit of property C04 (spot balances equal a cash-account model; no overspending / overselling).

Run:  cd /tmp/wta_C04 && /venv/bin/python audit_C04.py
Exit code 1 + explanation when at least one violation reproduces, 0 otherwise.

Every scenario is an ordinary isolated spot backtest (jesse.research.backtest) on flat 1m candles,
run both with the normal and the fast simulator. jesse itself is not modified.
"""
import os
import sys
import warnings

HERE = os.path.dirname(os.path.abspath(__file__))
sys.path.insert(0, HERE)
warnings.filterwarnings('ignore')

import numpy as np
import jesse
import jesse.helpers as jh
from jesse import research
from jesse.strategies import Strategy
from jesse.exceptions import InsufficientBalance

assert os.path.abspath(jesse.__file__).startswith(HERE), f'jesse imported from {jesse.__file__}'


def candles(rows, start=1609459200000):
    # rows: (open, close, high, low)
    return np.array([[start + i * 60000, o, c, h, l, 10.0] for i, (o, c, h, l) in enumerate(rows)], dtype=float)


def run(strategy, rows, fee, balance, fast):
    jh.CACHED_CONFIG.clear()
    config = {'starting_balance': balance, 'fee': fee, 'type': 'spot', 'futures_leverage': 1,
              'futures_leverage_mode': 'cross', 'exchange': 'Sandbox', 'warm_up_candles': 0}
    routes = [{'exchange': 'Sandbox', 'strategy': strategy, 'symbol': 'BTC-USDT', 'timeframe': '1m'}]
    cs = {'Sandbox-BTC-USDT': {'exchange': 'Sandbox', 'symbol': 'BTC-USDT', 'candles': candles(rows)}}
    return research.backtest(config, routes, [], cs, fast_mode=fast)


class Base(Strategy):
    def should_long(self): return False
    def should_cancel_entry(self): return False
    def go_long(self): pass


FLAT = [(100, 100, 100, 100)] * 8
violations = []


# ---------------------------------------------------------------------------------------------
# A. a SHORT position in a spot session, position size != base balance
#    every submission below is accepted by the property's own rule (per-kind check)
# ---------------------------------------------------------------------------------------------
def scenario_A1(fast):
    """LIMIT sell 1.5 + STOP sell of the whole position rest together (different kinds); both fill."""
    seen = []

    class S(Base):
        def before(self):
            if self.index == 1:
                self.broker.buy_at_market(2)
            if self.index == 2:
                self.broker.sell_at(1.5, 110)                                  # LIMIT sell
                self.broker.start_profit_at('sell', self.position.qty, 90)     # STOP sell (whole position)
            ex = self.position.exchange
            seen.append((self.index, ex.assets['BTC'], ex.assets['USDT'], self.position.qty, self.position.type))

        def before_terminate(self): self.before()

    rows = [(100, 100, 100, 100)] * 3 + [(100, 111, 111, 100), (111, 100, 111, 100), (100, 89, 100, 89)] + [(89, 89, 89, 89)] * 3
    run(S, rows, fee=0.001, balance=10000, fast=fast)
    return seen


def scenario_A2(fast):
    """two MARKET sells of 1.5 submitted in the same candle on a base balance of 1.998."""
    seen = []

    class S(Base):
        def before(self):
            if self.index == 1:
                self.broker.buy_at_market(2)
            if self.index == 3:
                self.broker.sell_at_market(1.5)
                self.broker.sell_at_market(1.5)
            ex = self.position.exchange
            seen.append((self.index, ex.assets['BTC'], ex.assets['USDT'], self.position.qty, self.position.type))

        def before_terminate(self): self.before()

    run(S, FLAT, fee=0.001, balance=10000, fast=fast)
    return seen


for name, sc in (('A1 limit-sell + stop-sell overlap', scenario_A1), ('A2 two market sells in one candle', scenario_A2)):
    for fast in (False, True):
        try:
            seen = sc(fast)
        except Exception as e:  # noqa
            print(f'[{name}, fast={fast}] unexpected exception: {e!r}')
            continue
        bad = [s for s in seen if s[3] < 0 or s[4] == 'short' or abs(s[3] - s[1]) > 1e-9]
        if bad:
            i, base, quote, pq, pt = bad[0]
            violations.append(
                f'{name} (fast_mode={fast}): at candle {i} position is {pt!r} with qty {pq} while the BTC balance is {base} '
                f'-> "no short position ever exists" / "position size equals the base balance" violated')


# ---------------------------------------------------------------------------------------------
# B. quote side: reserve / release is not exact, and the rejection rule follows the drifted value
# ---------------------------------------------------------------------------------------------
def scenario_B1(fast, with_pair):
    """balance 10000. (LIMIT buy 16.582 @ 15.3, cancelled one candle later), then MARKET buy 100 @ 100."""
    seen = []

    class S(Strategy):
        def should_long(self): return self.index in ((1, 4) if with_pair else (4,))
        def should_cancel_entry(self): return True

        def go_long(self):
            if self.index == 1:
                self.buy = 16.582, 15.3      # resting LIMIT buy (cost exactly 253.7046), cancelled at the next candle
            else:
                self.buy = 100, self.price   # 100 x 100 = 10000 = the whole cash balance

        def before(self):
            seen.append((self.index, self.position.exchange.assets['USDT']))

        def before_terminate(self): self.before()

    try:
        run(S, FLAT, fee=0.0, balance=10000, fast=fast)
        return seen, None
    except InsufficientBalance as e:
        return seen, str(e)


def scenario_B2(fast):
    """balance 7000, one single MARKET buy 100000 @ 0.07 (cost exactly 7000, not more than the balance)."""
    class S(Base):
        def before(self):
            if self.index == 1:
                self.broker.buy_at_market(100000)

    try:
        run(S, [(0.07, 0.07, 0.07, 0.07)] * 6, fee=0.0, balance=7000, fast=fast)
        return None
    except InsufficientBalance as e:
        return str(e)


for fast in (False, True):
    seen0, err0 = scenario_B1(fast, with_pair=False)
    seen1, err1 = scenario_B1(fast, with_pair=True)
    after_cancel = [q for i, q in seen1 if i == 3]
    if after_cancel and after_cancel[0] != 10000.0:
        violations.append(
            f'B1 (fast_mode={fast}): USDT balance after submit+cancel of LIMIT buy 16.582 @ 15.3 is {after_cancel[0]!r}, '
            f'not 10000.0 -> "releases exactly that on cancellation" violated')
    if err0 is None and err1 is not None:
        violations.append(
            f'B1 (fast_mode={fast}): MARKET buy 100 @ 100 (cost 10000 = free quote balance of the cash model) is accepted on a fresh '
            f'account but rejected after one earlier submit+cancel pair: "{err1}" -> "rejected exactly when a buy exceeds the free '
            f'quote balance ... also after any number of earlier cancellations" violated')
    err = scenario_B2(fast)
    if err is not None:
        violations.append(
            f'B2 (fast_mode={fast}): MARKET buy 100000 @ 0.07 with balance 7000 (cost exactly 7000, does not exceed the balance) '
            f'is rejected: "{err}" -> "rejected exactly when a buy exceeds the free quote balance" violated')


# ---------------------------------------------------------------------------------------------
# C. base side: the per-kind resting-sell sum does not return to 0 after cancellations
# ---------------------------------------------------------------------------------------------
def scenario_C(fast, with_pair):
    seen = []

    class S(Base):
        def before(self):
            ex = self.position.exchange
            if self.index == 1: self.broker.buy_at_market(4.746)
            if self.index == 2: self.broker.buy_at_market(0.7)
            if self.index == 3 and with_pair:
                self.o1 = self.broker.sell_at(4.746 * (1 - 0.001), 150)   # the two fee-reduced lots, as LIMIT sells
                self.o2 = self.broker.sell_at(0.7 * (1 - 0.001), 160)
            if self.index == 4 and with_pair:
                self.o1.cancel()
                self.o2.cancel()
            if self.index == 5:
                self.broker.sell_at_market(self.position.qty)             # sell exactly the base held, nothing is resting
            seen.append((self.index, ex.assets['BTC'], dict(ex.limit_orders_sum)))

        def before_terminate(self): self.before()

    try:
        run(S, FLAT, fee=0.001, balance=10000, fast=fast)
        return seen, None
    except InsufficientBalance as e:
        return seen, str(e)


for fast in (False, True):
    seen0, err0 = scenario_C(fast, with_pair=False)
    seen1, err1 = scenario_C(fast, with_pair=True)
    if err0 is None and err1 is not None:
        resid = [s[2] for s in seen1 if s[0] == 4]
        violations.append(
            f'C (fast_mode={fast}): after two LIMIT sells were submitted and both cancelled the resting-limit-sell sum is '
            f'{resid[0] if resid else "?"} instead of 0, and a MARKET sell of exactly the base held (no sell resting) is rejected: '
            f'"{err1}" -> "rejected exactly when a sell plus the already resting sells of its kind exceeds the base held - also after '
            f'any number of earlier cancellations" violated')


if violations:
    print(f'C04 VIOLATED ({len(violations)} observations):')
    for v in violations:
        print(' -', v)
    sys.exit(1)

print('C04: no violation reproduced')
sys.exit(0)
