"""
C05 audit - BORDERLINE finding (see AUDIT.md): a NaN quantity is accepted as an order size.

Clause concerned: "every executed order is recorded in exactly one trade".

Broker._validate_qty only rejects qty == 0, and every later comparison with NaN is False, so an entry
order whose qty is NaN (e.g. qty = risk / atr while the indicator is still NaN, warm_up_candles = 0) is
submitted, EXECUTED, and turns Position.qty into NaN for the rest of the session.  From then on every
further - perfectly valid - order is executed too (status EXECUTED, executed_at set) but changes nothing
and is never part of a closed trade: the session reports 0 trades for 2 executed orders.

Nothing in jesse is modified; Order.__init__ and store.reset are only wrapped to OBSERVE the objects
before research.backtest() wipes the store.

exit 1 = behaviour reproduced, exit 0 = not reproduced
"""
import sys
import warnings

warnings.filterwarnings('ignore')

import numpy as np
import jesse.helpers as jh
from jesse import research
from jesse.models import Order
from jesse.store import store
from jesse.strategies import Strategy

ORDERS, FINAL = [], {}

_init = Order.__init__


def _observing_init(self, *a, **k):
    _init(self, *a, **k)
    ORDERS.append(self)


Order.__init__ = _observing_init

_reset = store.reset


def _observing_reset(*a, **k):
    if not a and not k:  # the reset at the END of research.backtest()
        FINAL['closed_trades'] = list(store.completed_trades.trades)
        FINAL['balance'] = store.exchanges.storage['Sandbox'].assets['USDT']
        FINAL['position_qty'] = store.positions.storage['Sandbox-BTC-USDT'].qty
    return _reset(*a, **k)


store.reset = _observing_reset


class NanQty(Strategy):
    def should_long(self):
        return self.index in (1, 5)

    def go_long(self):
        # first entry: the size comes out as NaN (think: risk / atr before the indicator has enough candles)
        qty = float('nan') if self.index == 1 else 1.0
        self.buy = qty, self.price
        self.take_profit = 1, self.price + 3
        self.stop_loss = 1, self.price - 3


def candles(closes, start=1609459200000):
    rows, prev = [], closes[0]
    for i, c in enumerate(closes):
        rows.append([start + i * 60000, prev, c, max(prev, c), min(prev, c), 10])
        prev = c
    return np.array(rows, dtype=float)


def main():
    bad = False
    closes = [100, 100, 100, 101, 102, 103, 104, 105, 106, 107, 108, 109, 110, 109, 108]
    for fast in (False, True):
        ORDERS.clear()
        FINAL.clear()
        jh.CACHED_CONFIG.clear()
        res = research.backtest(
            {'starting_balance': 10000, 'fee': 0.001, 'type': 'futures', 'futures_leverage': 2,
             'futures_leverage_mode': 'cross', 'exchange': 'Sandbox', 'warm_up_candles': 0},
            [{'exchange': 'Sandbox', 'strategy': NanQty, 'symbol': 'BTC-USDT', 'timeframe': '1m'}], [],
            {'Sandbox-BTC-USDT': {'exchange': 'Sandbox', 'symbol': 'BTC-USDT', 'candles': candles(closes)}},
            fast_mode=fast,
        )
        executed = [o for o in ORDERS if o.is_executed]
        closed = FINAL['closed_trades']
        missing = [o for o in executed if sum(1 for t in closed for x in t.orders if x is o) != 1]
        print(f"fast_mode={fast}: executed orders = {[(o.type, o.side, o.qty, o.price) for o in executed]}, "
              f"closed trades = {len(closed)}, metrics.total = {res['metrics'].get('total')}, "
              f"final balance = {FINAL['balance']}, final position qty = {FINAL['position_qty']}")
        if missing:
            bad = True
            print(f"  -> {len(missing)} EXECUTED order(s) are not recorded in exactly one closed trade "
                  f"(including the valid 1.0-qty order submitted AFTER the NaN one)")
    if bad:
        print("C05 clause 'every executed order is recorded in exactly one trade' does not hold once a NaN qty "
              "has been accepted (Broker._validate_qty lets NaN through).")
        sys.exit(1)
    print('not reproduced')
    sys.exit(0)


if __name__ == '__main__':
    main()
