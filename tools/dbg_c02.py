import warnings; warnings.filterwarnings('ignore')
import json,sys
from vf.checks import c02
from vf import session as S, progs
d=json.load(open(sys.argv[1]))['case']
emb=tuple(d['embedding'])
P=dict(progs.programs(emb[1],emb[2],d['kind']))
prog2=P[d['program2']] if d.get('program2') else None
case=c02.build_case(tuple(d['word']),P[d['program']],d['kind'],d['fast'],emb,prog2=prog2,chunk=d.get('chunk',3))
for r in case['candles']['BTC-USDT']: print([round(x,6) for x in r[1:5]])
r=S.run_session(case)
for e in r['trace']:
    if e[0] in ('submit','exec','cancel','candle','candles'): print(e)
