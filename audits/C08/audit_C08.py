"""
Audit of property C08 ("Fills inside one minute follow a single continuous price path") against the unmodified jesse tree.

Run:  cd /tmp/wta_C08 && /venv/bin/python audit_C08.py
Exit code 1 + explanation when a violation is observed, 0 otherwise.

Two independent counterexamples, both in the normal (candle-by-candle) simulator, 1m route, futures:

 A. an exit order placed by the strategy in reaction to the entry fill (stop-loss 0.01% under the entry) fills at a price that the
    part of the path AFTER the entry fill never reaches;
 B. a position opened by a fill late in the minute is liquidated (isolated margin) at a price that only the part of the path
    BEFORE that fill visited.
"""
import sys
import warnings

warnings.filterwarnings('ignore')

import numpy as np
import jesse.helpers as jh
from jesse import research
from jesse.strategies import Strategy
from jesse.services.candle import split_candle, candle_includes_price

T0 = 1609459200000
LOG = []


def candles_from(ohlc):
    return np.array([[T0 + i * 60_000, o, c, h, l, 1.0] for i, (o, h, l, c) in enumerate(ohlc)], dtype=float)


def run(strategy, ohlc, **cfg):
    LOG.clear()
    jh.CACHED_CONFIG.clear()
    config = {'starting_balance': 1000, 'fee': 0, 'type': 'futures', 'futures_leverage': 1,
              'futures_leverage_mode': 'cross', 'exchange': 'Sandbox', 'warm_up_candles': 0}
    config.update(cfg)
    routes = [{'exchange': 'Sandbox', 'strategy': strategy, 'symbol': 'BTC-USDT', 'timeframe': '1m'}]
    cs = {'Sandbox-BTC-USDT': {'exchange': 'Sandbox', 'symbol': 'BTC-USDT', 'candles': candles_from(ohlc)}}
    research.backtest(config, routes, [], cs, fast_mode=False)
    return list(LOG)


class Base(Strategy):
    def should_long(self): return self.index == 0
    def should_short(self): return False
    def should_cancel_entry(self): return False
    def go_short(self): pass

    def on_open_position(self, order):
        LOG.append(('open', float(order.price), order.type, int(self.index)))

    def on_close_position(self, order):
        LOG.append(('close', float(order.price), order.type, int(self.index)))


class TightStop(Base):
    """buy-stop entry at 100, stop-loss 0.01 % below it (submitted by jesse in reaction to the entry fill)"""
    def go_long(self):
        self.buy = 1, 100.0
        self.stop_loss = 1, 99.99


class LateEntryIsolated(Base):
    """buy-stop entry at 115, 10x isolated margin -> liquidation price ~103.96"""
    def go_long(self):
        self.buy = 50, 115.0


def later_part(ohlc, fill_price):
    o, h, l, c = ohlc
    return split_candle(np.array([0.0, o, c, h, l, 1.0]), fill_price)[1]


def analyse(name, log, test_candle, expect_entry):
    """returns explanation string if the exit fill is off the part of the path after the entry fill"""
    opens = [e for e in log if e[0] == 'open']
    closes = [e for e in log if e[0] == 'close']
    if not opens or not closes:
        return None
    entry, exit_ = opens[0], closes[0]
    if entry[1] != expect_entry or entry[3] != exit_[3]:
        return None  # not in the same simulated minute / unexpected scenario
    later = later_part(test_candle, entry[1])
    o, h, l, c = test_candle
    path = [o, l, h, c] if c >= o else [o, h, l, c]
    if candle_includes_price(later, exit_[1]):
        return None
    return (f'[{name}] minute O={o} H={h} L={l} C={c}, path {path}: entry filled at {entry[1]}; the rest of the path is '
            f'open={later[1]} high={later[3]} low={later[4]} close={later[2]}, yet in the same minute a {exit_[2]} exit '
            f'order filled at {exit_[1]}, a price the path does not reach after the entry fill.')


def main():
    found = []

    # A: rising minute 95 -> 94 -> 120 -> 110; entry at 100 on the way up; stop at 99.99 is never touched afterwards
    ca = [(95, 95, 95, 95), (95, 120, 94, 110), (110, 110, 110, 110)]
    msg = analyse('A tight stop-loss', run(TightStop, ca), ca[1], 100.0)
    if msg:
        found.append(msg)

    # B: rising minute 100 -> 90 -> 120 -> 110; entry at 115 after the low; liquidation price 103.96 only lies before the entry
    cb = [(100, 100, 100, 100), (100, 120, 90, 110), (110, 110, 110, 110)]
    msg = analyse('B liquidation', run(LateEntryIsolated, cb, futures_leverage=10, futures_leverage_mode='isolated'),
                  cb[1], 115.0)
    if msg:
        found.append(msg)

    if found:
        print('C08 VIOLATED: "an order created in reaction to a fill can only fill on the part of the path after that fill" / '
              '"within one simulated minute the normal simulator fills orders along one continuous price path"')
        for m in found:
            print(' -', m)
        return 1
    print('C08: no violation observed')
    return 0


if __name__ == '__main__':
    sys.exit(main())
