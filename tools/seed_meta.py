import json,sys,os,re
name,prop,needs,caught=sys.argv[1:5]
d='/verif/seeded/'+name
def rd(f):
    p=os.path.join(d,f); return open(p).read().strip() if os.path.exists(p) else None
logs=[f for f in os.listdir(d) if f.startswith('check_')]
runs={}
for f in logs:
    t=open(os.path.join(d,f)).read()
    runs[f[6:-4]]={'violation_lines':len(re.findall(r'^VIOLATION',t,re.M)),'first':(re.findall(r'^VIOLATION.*\n.*\n.*',t,re.M) or [''])[0][:600]}
meta={'seed':name,'breaks_property':prop,'needs_to_manifest':needs,
 'confirmed':{'tests_with_change':rd('tests_with.summary'),'demo_exit_with_change':rd('demo_with.rc'),'demo_exit_without_change':rd('demo_without.rc'),
   'how':'tools/verify_seed.sh in the author\'s scratch worktree (pytest -q -p no:cacheprovider --timeout=900; demo run with and without the change via git stash)'},
 'check_runs':runs,'caught_by':caught,
 'ran':'tools/run_seed.sh %s %s  (git -C /repo apply patch.diff; ./check %s; git -C /repo checkout -- .)'%(name,prop,prop)}
json.dump(meta,open(os.path.join(d,'meta.json'),'w'),indent=1)
print(name,'meta written')
