"""Warm the private (bounds-checked) numba cache: every indicator is called once so that the first quick run after a fresh
restore does not pay the cold compile. Best effort: failures and native crashes are ignored here (the checks report them)."""
import sys

from . import core, indreg


def _one(name):
    fs = dict(indreg.functions())
    f = fs[name]
    st = indreg.stems(300)
    st2 = indreg.stems(300, base=50.0)
    for vn, kw in indreg.variants(name, f).items():
        for seq in (True, False):
            try:
                indreg.call(name, f, st['walk1'], seq, kw, st2['walk1'])
            except Exception:
                pass
    return name


if __name__ == '__main__':
    names = [n for n, f in indreg.functions()]
    res = core.pmap_isolated(_one, names, timeout=300)
    ok = sum(1 for st, r in res if st == 'ok')
    print('warmed %d/%d indicators' % (ok, len(names)))
    # account / simulator kernels
    try:
        from . import acct
        acct.fresh('futures', 0.001, 1000.0, leverage=2, symbols=('BTC-USDT',), price=100.0)
    except Exception as e:
        print('warm: account session failed:', e)
    sys.exit(0)
