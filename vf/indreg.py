"""Registry of jesse.indicators built by introspection (shared by C13, C14, C15)."""
import inspect
import math

import numpy as np

from . import session as S, progs

INT_WINDOW_HINTS = ('period', 'length', 'window', 'lookback', 'range')
SINGLE_LETTER_WINDOWS = {'cksp': ('p', 'q'), 'dti': ('r', 's', 'u'), 'srsi': ('k', 'd'), 'frama': ('window',), 'kst': ()}
SECOND_SERIES = {'beta': 'benchmark_candles', 'rsmk': 'candles_compare'}
# indicators whose small-window variant needs a hand-written parameter set (constraints between parameters)
SMALL_OVERRIDE = {
    'frama': {'window': 4, 'FC': 1, 'SC': 8},          # window must be even
    'hurst_exponent': None,
    'vlma': {'min_period': 2, 'max_period': 5},
    'kst': {'sma_period1': 2, 'sma_period2': 2, 'sma_period3': 2, 'sma_period4': 3, 'roc_period1': 2, 'roc_period2': 3, 'roc_period3': 4, 'roc_period4': 5, 'signal_period': 2},
    'ultosc': {'timeperiod1': 2, 'timeperiod2': 3, 'timeperiod3': 4},
    'damiani_volatmeter': {'vis_atr': 2, 'vis_std': 3, 'sed_atr': 4, 'sed_std': 5},
    'ichimoku_cloud_seq': {'conversion_line_period': 2, 'base_line_period': 3, 'lagging_line_period': 4, 'displacement': 2},
    'wt': {'wtchannellen': 2, 'wtaveragelen': 3, 'wtmalen': 2},
    'stiffness': None,
    'support_resistance_with_breaks': None,
}
# a second hand-written parameter set where the ORDER of two windows is the reverse of the default one
OTHER_OVERRIDE = {'damiani_volatmeter': {'vis_std': 20, 'sed_std': 10}}
SOURCES = ['close', 'high', 'low', 'open', 'volume', 'hl2', 'hlc3', 'ohlc4']


def functions():
    import jesse.indicators as ta
    out = []
    for n, f in sorted(vars(ta).items()):
        if n.startswith('_') or not inspect.isfunction(f):
            continue
        out.append((n, f))
    return out


def is_window_param(name, fname):
    if name in SINGLE_LETTER_WINDOWS.get(fname, ()):
        return True
    return any(h in name for h in INT_WINDOW_HINTS) and not name.endswith('matype')


def variants(name, f):
    """{'default': {}, 'small': {...}, 'other': {...}} keyword overrides"""
    sig = inspect.signature(f)
    v = {'default': {}}
    # a recursive moving average (EMA) wherever the indicator lets the caller choose the smoothing
    mts = [p for p, d in sig.parameters.items() if p.endswith('matype') and isinstance(d.default, int)]
    if mts:
        v['ema-matype'] = {p: 1 for p in mts}
        if name in ('stoch', 'stochf', 'kdj'):
            # smoothing kernels that treat undefined input values themselves (the raw %K is 0/0 on a flat window)
            for mt, nm in ((16, 'gauss'), (28, 'hwma'), (33, 'maaq')):
                v['%s-matype' % nm] = {p: mt for p in mts}
    if 'devtype' in sig.parameters:
        # the other kinds of deviation (mean / median absolute), with a multiplier that does not cancel them
        for dt in (1, 2):
            kw = {'devtype': dt}
            if 'mult' in sig.parameters:
                kw['mult'] = 1.5
            v['dev%d' % dt] = kw
    if name in SMALL_OVERRIDE:
        if SMALL_OVERRIDE[name]:
            v['small'] = dict(SMALL_OVERRIDE[name])
        if name in OTHER_OVERRIDE:
            v['other'] = dict(OTHER_OVERRIDE[name])
        return v
    wins = [(p, d.default) for p, d in sig.parameters.items()
            if is_window_param(p, name) and isinstance(d.default, int) and not isinstance(d.default, bool) and d.default >= 2]
    if wins:
        ranked = sorted(set(d for _, d in wins))
        small = {p: 2 + ranked.index(d) for p, d in wins}
        v['small'] = small
        v['other'] = {p: d + 3 + i for i, (p, d) in enumerate(wins)}
        # long windows: the influence of candles before the 240-candle warm-up window is still visible in recursive kernels
        v['large'] = {p: 40 + 5 * ranked.index(d) for p, d in wins}
        # windows that take a large part of the 240-candle warm-up window: whether the non-sequential path really works on that
        # window (and not on the whole history) is only visible here
        v['huge'] = {p: 90 + 30 * ranked.index(d) for p, d in wins}
    return v


def has(f, param):
    return param in inspect.signature(f).parameters


def fields(res):
    """-> list of (field name, value)"""
    if isinstance(res, tuple) and hasattr(res, '_fields'):
        return [(k, getattr(res, k)) for k in res._fields]
    if isinstance(res, tuple):
        return [('f%d' % i, x) for i, x in enumerate(res)]
    return [('value', res)]


def call(name, f, candles, sequential, kw, second=None):
    args = [candles]
    kw = dict(kw)
    if name in SECOND_SERIES:
        args.append(second)
    if has(f, 'sequential'):
        kw['sequential'] = sequential
    return f(*args, **kw)


def same(a, b, rel=1e-9, abs_=1e-9):
    """NaN-aware comparison of two scalars / equal-length arrays"""
    a = np.asarray(a, dtype=float)
    b = np.asarray(b, dtype=float)
    if a.shape != b.shape:
        return False
    na, nb = np.isnan(a), np.isnan(b)
    if (na != nb).any():
        return False
    m = ~na
    if not m.any():
        return True
    x, y = a[m], b[m]
    inf = np.isinf(x) | np.isinf(y)
    if inf.any():
        if not (x[inf] == y[inf]).all():
            return False
        x, y = x[~inf], y[~inf]
    return bool((np.abs(x - y) <= np.maximum(abs_ * 1e-3, rel * np.maximum(np.abs(x), np.abs(y)))).all())


# ------------------------------------------------------------------ candle series menu

def stems(n=300, base=100.0):
    """structured series of n candles: rows [ts, open, close, high, low, volume]"""
    out = {}

    def build(closes, wick=0.3, vol=None):
        rows = []
        prev = closes[0]
        for i, c in enumerate(closes):
            o = prev
            h = max(o, c) + wick * (1 + (i * 7 % 5) / 5.0)
            l = min(o, c) - wick * (1 + (i * 3 % 4) / 4.0)
            v = (vol[i] if vol is not None else 100.0 + (i * 37 % 91))
            rows.append([S.TS0 + i * 60000, o, c, h, l, v])
            prev = c
        return np.array(rows, dtype=float)

    out['trend'] = build([base + 0.5 * i + (1.5 if i % 7 == 0 else 0) for i in range(n)])
    # a perfectly clean ramp (oscillators pinned at their bound for a long stretch), then a reversal
    out['ramp'] = build([base + 0.5 * i if i < 2 * n // 3 else base + 0.5 * (2 * n // 3) - 0.7 * (i - 2 * n // 3) for i in range(n)], wick=0.0)
    out['flat'] = build([base + (0.2 if i % 2 else -0.2) for i in range(n)], wick=0.1)
    out['spike'] = build([base + (25.0 if i in (70, 71, 180) else 0) + 0.1 * (i % 5) for i in range(n)])
    out['saw'] = build([base + (i % 13) * 0.8 - (i % 5) * 0.5 for i in range(n)])
    # minutes without trades: stretches of candles with open == high == low == close inside a moving market
    cl = []
    c = base
    for i in range(n):
        stretch = (40 <= i % 100 < 56) or (70 <= i % 100 < 76)
        if not stretch:
            c = c + (1.1 if (i * 7) % 5 < 3 else -1.3)
        cl.append(c)
    nt = build(cl, wick=0.4)
    for i in range(n):
        if (40 <= i % 100 < 56) or (70 <= i % 100 < 76):
            nt[i, 1] = nt[i, 2] = nt[i, 3] = nt[i, 4] = cl[i]
            nt[i, 5] = 0.0
    out['notrade'] = nt
    # a listing that starts without any volume: a moving market whose first third reports volume 0 on every candle
    zv = build([base + (i % 11) * 0.6 - (i % 4) * 0.9 + 0.05 * i for i in range(n)])
    zv[: n // 3, 5] = 0.0
    out['zerovol-start'] = zv
    # two deterministic "real looking" walks (linear congruential steps, no RNG)
    for name, seed in (('walk1', 12345), ('walk2', 777)):
        x = seed
        c = base
        cl = []
        for i in range(n):
            x = (1103515245 * x + 12345) % (2 ** 31)
            c = max(1.0, c + ((x >> 8) % 2001 - 1000) / 500.0)
            cl.append(c)
        out[name] = build(cl)
    return out
