#!/bin/bash
# usage: tools/verify_seed.sh <seed-name> <worktree> <PROPERTY>   -> fills /verif/seeded/<seed-name>/
name=$1; wt=$2; prop=$3
out=/verif/seeded/$name; mkdir -p $out
cd $wt || exit 2
git diff -- jesse > $out/patch.diff
cp demo_*.py $out/ 2>/dev/null; cp SEEDED.md $out/ 2>/dev/null
demo=$(ls demo_*.py | head -1)
export PYTHONDONTWRITEBYTECODE=1 PYTHONWARNINGS=ignore
( /venv/bin/python $demo > $out/demo_with.log 2>&1; echo $? > $out/demo_with.rc )
( /venv/bin/python -m pytest -q -p no:cacheprovider --timeout=900 > $out/tests_with.log 2>&1; tail -1 $out/tests_with.log > $out/tests_with.summary )
git checkout -- jesse   # (not git stash: the stash is shared between worktrees)
( /venv/bin/python $demo > $out/demo_without.log 2>&1; echo $? > $out/demo_without.rc )
git apply $out/patch.diff
echo "$name: demo_with=$(cat $out/demo_with.rc) demo_without=$(cat $out/demo_without.rc) tests: $(cat $out/tests_with.summary)"
