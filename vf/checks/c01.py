"""C01 - backtest decisions never depend on future candles (2-run hyperproperty over a prefix trie, Engine A).

Every session of the space is run with full observation (every hook logs price, position, balance, margin, active orders and a
digest + last row of every candle array it can read for every route symbol/timeframe).  For every cut k the digest of all
observable events with store.app.time <= t0 + k*60s is filed under (configuration, program, first k minute-candles of every symbol);
ALL sessions sharing that key must agree.  This compares every run with every other run that shares a prefix - every cut point and
every replacement tail of the lattice at once.  Fast simulator: cuts on trading-candle boundaries only.
"""
import hashlib
import itertools
import json

from .. import core, session as S, progs
from ..core import Violation
from . import c12

ID = 'C01'
T = c12.T


def mirror(minutes):
    return [(-g, -d, wd, wu) for (g, d, wu, wd) in minutes]


def configs(quick):
    """name, kind, trading tf, data routes [(symbol index, tf)], two symbols?, warmup?, fast?, word generator"""
    m5 = ('minutes', ['U1', 'D1', 'U2w', 'D2w', 'GU'] if not quick else ['U1', 'D1', 'D2w', 'GU'], 5)
    m4 = ('minutes', ['U1', 'D1', 'D2w', 'GU'], 6)
    b5 = ('blocks', 5, ['up', 'down', 'spike', 'dip', 'zig'], 3)
    b3 = ('blocks', 3, ['up', 'down', 'spike', 'dip', 'zig'], 4)
    out = [
        ('fut-1m', 'futures', '1m', [], False, False, False, m5),
        ('fut-1m-fast', 'futures', '1m', [], False, False, True, m5),
        ('spot-1m-2sym', 'spot', '1m', [(1, '3m')], True, False, False, m5),
        ('fut-3m-d15m', 'futures', '3m', [(0, '15m')], False, False, False, m4),
        ('fut-3m-d15m-fast', 'futures', '3m', [(0, '15m')], False, False, True, m4),
        ('fut-5m-warm', 'futures', '5m', [(0, '15m')], False, True, False, b5),
        ('fut-5m-warm-fast', 'futures', '5m', [(0, '15m')], False, True, True, b5),
        ('fut-1m-d5m-2sym', 'futures', '1m', [(0, '5m'), (1, '5m')], True, False, False, m5),
        ('fut-15m-d3m-fast', 'futures', '15m', [(0, '3m')], False, False, True, b3),
        ('fut-15m-d3m', 'futures', '15m', [(0, '3m')], False, False, False, b3),
        ('fut-3m-2sym-fast', 'futures', '3m', [], True, False, True, b3),
        ('fut-1m-2sym-fast', 'futures', '1m', [(1, '3m')], True, False, True, ('minutes', ['U1', 'D2w', 'GU'], 5)),
        # minutes that close where they opened with BOTH exits of an open position inside their range: which exit fills first is
        # decided by a rule of thumb about the minute's shape - it must not consult the minute after
        ('fut-1m-doji', 'futures', '1m', [], False, False, False, ('minutes', ['U1', 'D1', 'DOJI2', 'FLAT'], 5)),
    ]
    if not quick:
        m6 = ('minutes', ['U1', 'D1', 'U2w', 'D2w', 'GU', 'GD', 'DOJI', 'FLAT'], 5)
        out += [('fut-1m-wide', 'futures', '1m', [(0, '3m')], False, False, False, m6),
                ('fut-1m-wide-fast', 'futures', '1m', [(0, '3m')], False, False, True, m6),
                ('spot-3m-2sym-fast', 'spot', '3m', [(1, '3m')], True, False, True, ('minutes', ['U1', 'D1', 'U2w', 'D2w', 'GU'], 6)),
                ('fut-5m-d1m', 'futures', '5m', [(0, '1m')], False, True, False, ('blocks', 5, ['up', 'down', 'spike', 'dip', 'zig', 'flat'], 3))]
    return out


def words(gen):
    if gen[0] == 'minutes':
        for w in itertools.product(gen[1], repeat=gen[2]):
            yield [progs.SHAPES[c] for c in w], ''.join('%s.' % c for c in w)
    else:
        for mins, name in c12.words(gen):
            yield mins, name


def programs(tick, unit, kind, tf):
    w = 2
    P = [('long-limit', {'side': 'long', 'enter': {'when': 'flat', 'legs': [[1, -1]]}, 'on_open': {'sl': 'all', 'tp': 'all', 'sl_d': w, 'tp_d': w}, 'cancel_entry': True}),
         ('long-stop-ladder', {'side': 'long', 'enter': {'when': 'flat', 'legs': [[2, 1]]}, 'on_open': {'sl': [[2, 2]], 'tp': [[1, 1], [1, 2]]},
                               'on_reduced': {'sl': 'breakeven'}, 'cancel_entry': False})]
    if kind == 'futures':
        P.append(('short-market', {'side': 'short', 'enter': {'when': 'flat', 'legs': [[1, 0]]}, 'on_open': {'sl': 'all', 'tp': 'all', 'sl_d': 1, 'tp_d': 2},
                                   'cancel_entry': True}))
    return [(n, dict(p, tick=tick, unit=unit)) for n, p in P]


def build(cfg, minutes, pname, spec, emb):
    name, kind, tf, dr, two, warm, fast, gen = cfg
    base, tick, unit = emb
    span = max([T[tf]] + [T[t] for _, t in dr])
    lead = [progs.SHAPES['FLAT']] * T[tf]
    w = lead + list(minutes)
    while len(w) % span:
        w.append(progs.SHAPES['FLAT'])
    syms = S.SYMS[:2] if two else S.SYMS[:1]
    candles = {syms[0]: S.make_candles(w, base + 40 * tick, tick).tolist()}
    if two:
        candles[syms[1]] = S.make_candles(lead + mirror(w[len(lead):]), base + 60 * tick, tick).tolist()
    reads = [[s, t] for s in syms for t in sorted({tf} | {t for _, t in dr} | {'1m'}, key=lambda x: T[x])
             if (s == syms[0] and (t in (tf, '1m') or any(i == 0 and t == tt for i, tt in dr))) or (s != syms[0] and (t in (tf, '1m') or any(i == 1 and t == tt for i, tt in dr)))]
    routes = [{'symbol': syms[0], 'timeframe': tf, 'spec': dict(spec, reads=reads)}]
    if two:
        routes.append({'symbol': syms[1], 'timeframe': tf, 'spec': dict(spec, reads=reads)})
    droutes = [[syms[i], t] for i, t in dr]
    case = {'cfg': {'type': kind, 'fee': 0.001 if kind == 'futures' else 0.0, 'leverage': 2, 'balance': 200 * (base + 60 * tick) * unit},
            'routes': routes, 'data_routes': droutes, 'candles': candles, 'fast': fast, 'observe': 2}
    if warm:
        nw = span * 2
        case['warmup'] = {s: S.make_candles([progs.SHAPES['DOJI']] * nw, candles[s][0][1], tick, t0=S.TS0 - nw * 60000).tolist() for s in syms}
        # the warm-up series ends exactly where the session starts
        case['cfg']['warm_up_candles'] = nw
    return case, len(lead), len(w)


def _session(args):
    cfg, minutes, wname, pname, spec, emb = args
    case, lead, total = build(cfg, minutes, pname, spec, emb)
    r = S.run_session(case)
    ident = {'config': cfg[0], 'word': wname, 'program': pname, 'embedding': list(emb)}
    if r['error']:
        return {'error': Violation('unexpected-exception', {'exc': r['error'][0], 'config': cfg[0]}, ident, '%s: %s' % r['error'][:2]).to_json(), 'cuts': []}
    fast = cfg[6]
    step = T[cfg[2]]
    # observable events only; every kind used here carries (or directly follows an event that carries) its own clock reading.
    # Bookkeeping markers of other checks ('step-end', 'active-list', 'c07', 'liq', ...) are not observations of the strategy.
    KINDS = ('hook', 'submit', 'reject', 'exec', 'exec_done', 'cancel', 'final-call-effect', 'equity')
    evs = [e for e in r['trace'] if e[0] in KINDS]

    def when(e):
        if e[0] == 'hook':
            return e[3]
        if e[0] in ('submit',):
            return e[8]
        if e[0] == 'reject':
            return e[7]
        if e[0] in ('exec', 'cancel'):
            return e[2]
        if e[0] == 'equity':
            return e[1]
        return None
    cuts = []
    h = hashlib.blake2b(digest_size=10)
    i = 0
    lastw = S.TS0
    # events are in program order; an event without its own clock reading inherits the previous one
    stamped = []
    for e in evs:
        w = when(e)
        if w is None:
            w = lastw
        lastw = w
        stamped.append((w, e))
    nshape = len(case['candles'][list(case['candles'])[0]])
    for k in range(lead, total + 1):
        if fast and k % step:
            continue
        limit = S.TS0 + k * 60000
        while i < len(stamped) and stamped[i][0] <= limit:
            h.update(json.dumps(core.jsonable(stamped[i][1]), sort_keys=True).encode())
            i += 1
        cuts.append((k, h.hexdigest(), i))
    # the key of a cut is the minute-candle prefix of every symbol
    rows = {s: [tuple(x[1:5]) for x in c] for s, c in case['candles'].items()}
    keys = [hashlib.blake2b(repr([rows[s][:k] for s in sorted(rows)]).encode(), digest_size=10).hexdigest() for k, _, _ in cuts]
    return {'error': None, 'cuts': [(k, key, dg, n) for (k, dg, n), key in zip(cuts, keys)], 'nevents': len(stamped)}


def run(ctx):
    cov = ctx.coverage
    emb = ctx.embedding
    jobs = []
    for cfg in configs(ctx.quick):
        P = programs(emb[1], emb[2], cfg[1], cfg[2])
        if ctx.quick:
            P = [P[0], P[-1]]
        for minutes, wname in words(cfg[7]):
            for pname, spec in P:
                jobs.append((cfg, minutes, wname, pname, spec, emb))
    res = core.pmap(_session, jobs, chunksize=32)
    table = {}
    sigs = set()
    groups = 0
    compared = 0
    for j, r in zip(jobs, res):
        cfgname, pname, wname = j[0][0], j[3], j[2]
        if r['error']:
            v = Violation.from_json(r['error'])
            if v.sigkey() not in sigs:
                sigs.add(v.sigkey())
                ctx.add(v)
            continue
        cov['transitions'] += r['nevents']
        for k, key, dg, n in r['cuts']:
            tk = (cfgname, pname, k, key)
            if tk not in table:
                table[tk] = (dg, wname, n)
                groups += 1
            else:
                compared += 1
                if table[tk][0] != dg:
                    sig = {'config': cfgname, 'program': pname}
                    v = Violation('prefix-differs', sig, {'config': cfgname, 'program': pname, 'cut_minute': k, 'word_a': table[tk][1], 'word_b': wname, 'embedding': list(emb)},
                                  'runs on %r and %r share the first %d minute-candles but their observable prefixes differ (%d vs %d events up to the cut)'
                                  % (table[tk][1], wname, k, table[tk][2], n))
                    ctx.count('violation:prefix-differs')
                    if v.sigkey() not in sigs:
                        sigs.add(v.sigkey())
                        ctx.add(v)
                    else:
                        ctx.total_violations += 1
    ctx.count('prefix-groups', groups)
    ctx.count('pairwise-agreements-checked', compared)
    cov['states'] = len(jobs)
    cov['traces_validated_against_impl'] = len(jobs)
    cov['evaluations'] = len(jobs)
    cov['distinct_nontrivial'] = compared
    cov['rule'] = ('all words x programs x configurations; every (cut, prefix) group with more than one member is a comparison between runs that differ only in the future; '
                   'distinct_nontrivial counts those comparisons')
    cov['bounds'] = {'configs': [[c[0], c[1], c[2], c[3], c[4], c[5], c[6], [str(x) for x in c[7]]] for c in configs(ctx.quick)]}
    ctx.sample({'config': jobs[0][0][0], 'word': jobs[0][2], 'program': jobs[0][3]})
    ctx.sample({'config': jobs[-1][0][0], 'word': jobs[-1][2], 'program': jobs[-1][3]})
    ctx.assumptions += ['candle-store insert events are inputs and are not part of the compared prefix; everything a hook can read (all candle arrays as digests) is',
                        'the second symbol follows the mirrored word, so its future changes together with the first symbol\'s',
                        'fast simulator: cut points on trading-candle boundaries only, as the property states']


def replay(case, ctx):
    emb = tuple(case.get('embedding') or ctx.embedding)
    cfg = [c for c in configs(False) + configs(True) if c[0] == case['config']][0]
    P = dict(programs(emb[1], emb[2], cfg[1], cfg[2]))
    ws = {name: mins for mins, name in words(cfg[7])}
    if 'word_a' not in case:
        r = _session((cfg, ws[case['word']], case['word'], case['program'], P[case['program']], emb))
        return [Violation.from_json(r['error'])] if r['error'] else []
    ra = _session((cfg, ws[case['word_a']], case['word_a'], case['program'], P[case['program']], emb))
    rb = _session((cfg, ws[case['word_b']], case['word_b'], case['program'], P[case['program']], emb))
    da = {(k, key): dg for k, key, dg, n in ra['cuts']}
    out = []
    for k, key, dg, n in rb['cuts']:
        if (k, key) in da and da[(k, key)] != dg:
            out.append(Violation('prefix-differs', {'config': case['config'], 'program': case['program']}, case, 'prefixes differ at cut minute %d' % k))
            break
    return out
