"""Oracles over Engine A traces: C02 (fills where/when price reaches them), C08 (path order inside a minute),
C05 (life-cycle clauses on every order of a session). Pure functions: trace x inputs -> list of problems
(clause, signature dict, message)."""
import math

from . import session as S

NEAR = 0.00015


def _ranges(case):
    return {sym: S.normalised_ranges(rows) for sym, rows in case['candles'].items()}


def chunk_step(case):
    """fast-mode chunk = gcd of all route timeframes (as jesse computes it)"""
    from jesse.modes.backtest_mode import timeframe_to_one_minutes as T
    tfs = [T[r['timeframe']] for r in case['routes']] + [T[tf] for _, tf in case.get('data_routes', [])]
    g = 0
    for t in tfs:
        g = math.gcd(g, t)
    return g


def phases(trace, case):
    """For every symbol: list of matching phases [(first_idx, last_idx, minute_lo, minute_hi)] - one per minute in the
    normal simulator, one per chunk in the fast one. first_idx = first event of the phase, last_idx = the event that
    ends it (the final 1m add of the minute / the batch insert of the chunk)."""
    fast = bool(case.get('fast'))
    out = {}
    # the simulator re-publishes the minute's candle between creating a force-close (liquidation) order and executing it: those
    # candle events belong to the liquidation step, not to the matching phase
    skip = set()
    pending = None
    for idx, ev in enumerate(trace):
        if ev[0] == 'submit' and ev[3] == 'MARKET' and ev[7] and ev[9] and abs(1 - ev[6] / ev[9]) > 0.00015 and not ev[10]:
            pending = ev[1]
        elif ev[0] == 'exec' and ev[1] == pending:
            pending = None
        elif pending is not None and ev[0] == 'candle':
            skip.add(idx)
    if not fast:
        for idx, ev in enumerate(trace):
            if idx in skip:
                continue
            if ev[0] == 'candle' and ev[2] == '1m':
                m = S.minute_of(ev[3])
                if m < 0:
                    continue
                ph = out.setdefault(ev[1], {})
                if m not in ph:
                    ph[m] = [idx, idx, m, m]
                else:
                    ph[m][1] = idx
        return {s: [tuple(v) for k, v in sorted(p.items())] for s, p in out.items()}
    step = chunk_step(case)
    for idx, ev in enumerate(trace):
        if idx in skip:
            continue
        if ev[0] == 'candle' and ev[2] == '1m':
            m = S.minute_of(ev[3])
            if m < 0:
                continue
            c = m // step
        elif ev[0] == 'candles':
            m = S.minute_of(ev[2])
            if m < 0:
                continue
            c = m // step
        else:
            continue
        ph = out.setdefault(ev[1], {})
        if c not in ph:
            ph[c] = [idx, idx, c * step, c * step + step - 1]
        else:
            ph[c][1] = idx
    return {s: [tuple(v) for k, v in sorted(p.items())] for s, p in out.items()}


def c02(trace, case, end):
    probs = []
    orders = S.index_trace(trace)
    rng = _ranges(case)
    ph = phases(trace, case)
    fast = bool(case.get('fast'))
    simname = 'fast' if fast else 'normal'
    stats = {'resting_filled': 0, 'resting_survived_a_phase': 0, 'market_filled': 0}
    # a MARKET order placed from inside a fill handler: "the current price at the moment it is submitted" is the price of the fill
    # that is being reported (whatever the framework shows as current price)
    stack = []
    for ev in trace:
        if ev[0] == 'exec' and not ev[3]:
            stack.append(ev[1])
        elif ev[0] == 'exec_done' and stack and stack[-1] == ev[1]:
            stack.pop()
        elif ev[0] == 'submit' and ev[3] == 'MARKET' and stack and stack[-1] in orders and orders[stack[-1]]['symbol'] == ev[2] \
                and orders[stack[-1]]['type'] != 'MARKET' and ev[9] and abs(1 - ev[6] / ev[9]) <= NEAR + 1e-9:
            fillp = orders[stack[-1]]['price']
            if abs(1 - ev[6] / fillp) > 2 * NEAR + 1e-9:
                probs.append(('market-price', {'sim': simname, 'from_fill_handler': True},
                              'MARKET order %d placed from the handler of the fill of order %d at %r is priced %r (shown current price %r)' % (ev[1], stack[-1], fillp, ev[6], ev[9])))
                break
    for o in orders.values():
        sym = o['symbol']
        r = rng[sym]
        if o['type'] == 'MARKET':
            if o['final'] == 'exec':
                stats['market_filled'] += 1
                if o['final_minute'] != o['submit_minute']:
                    probs.append(('market-late', {'sim': simname}, 'MARKET order %d submitted in minute %d executed in minute %d'
                                  % (o['oid'], o['submit_minute'], o['final_minute'])))
                # no batch insert of a later chunk in between either
                for ev in trace[o['submit_idx']:o['final_idx']]:
                    if ev[0] == 'candles' and ev[1] == sym:
                        probs.append(('market-late', {'sim': simname, 'chunk': True}, 'MARKET order %d executed after a later chunk was processed' % o['oid']))
                        break
                cur = o['cur_price']
                if cur and not o['reduce_only'] and abs(1 - o['price'] / cur) > NEAR + 1e-9:
                    probs.append(('market-price', {'sim': simname}, 'MARKET order %d priced %r while the current price was %r' % (o['oid'], o['price'], cur)))
            elif o['final'] is None:
                probs.append(('market-never-filled', {'sim': simname}, 'MARKET order %d was never executed' % o['oid']))
            # "at the moment it is submitted": a MARKET order placed at the current price (e.g. from a fill handler in the middle
            # of a minute) is dealt with before the price moves on, i.e. before any resting order of the symbol fills
            cur = o['cur_price']
            if cur and abs(1 - o['price'] / cur) <= NEAR + 1e-9 and o['final_idx'] is not None:
                for ev in trace[o['submit_idx'] + 1:o['final_idx']]:
                    if ev[0] == 'exec' and not ev[3] and ev[1] in orders and orders[ev[1]]['symbol'] == sym and orders[ev[1]]['type'] != 'MARKET':
                        probs.append(('market-overtaken', {'sim': simname, 'market_order_finally': o['final'], 'priced_at_current': o['price'] == cur},
                                      'MARKET order %d (price %r) was submitted at the current price %r, but resting order %d at %r was filled before it was %s'
                                      % (o['oid'], o['price'], cur, ev[1], orders[ev[1]]['price'], 'executed' if o['final'] == 'exec' else 'cancelled')))
                        break
            continue
        # resting order
        if o['final'] == 'exec':
            stats['resting_filled'] += 1
            m = o['final_minute']
            if m < 0 or m >= len(r) or not (r[m][0] <= o['price'] <= r[m][1]):
                probs.append(('fill-outside-range', {'sim': simname, 'type': o['type']},
                              '%s order %d at %r executed in minute %d whose range is %r' % (o['type'], o['oid'], o['price'], m, r[m] if 0 <= m < len(r) else None)))
            if m < o['submit_minute'] or (m == o['submit_minute'] and not o['reaction'] and not fast):
                probs.append(('fill-before-submission', {'sim': simname}, 'order %d submitted at the strategy step of minute %d executed in minute %d'
                              % (o['oid'], o['submit_minute'], m)))
            elif o.get('final_now') is not None and o['final_now'] < o['submit_now']:
                # by the session clock (an order placed from another route's fill handler carries that route's time)
                probs.append(('fill-before-submission', {'sim': simname, 'by_clock': True}, 'order %d was submitted at %r and executed at the earlier time %r'
                              % (o['oid'], o['submit_now'], o['final_now'])))
        # survived phases
        for first, last, mlo, mhi in ph.get(sym, []):
            if o['submit_idx'] > first:
                # not resting when this phase began. In the fast simulator an order created inside a chunk is still owed a fill in
                # the LATER minutes of that chunk ("the first simulated minute, from its submission onward")
                if fast and first < o['submit_idx'] <= last and (o['final_idx'] is None or o['final_idx'] > last):
                    later = [m for m in range(max(mlo, o['submit_minute'] + 1), min(mhi, len(r) - 1) + 1) if r[m][0] <= o['price'] <= r[m][1]]
                    if later:
                        probs.append(('missed-fill', {'sim': simname, 'type': o['type'], 'reduce_only': o['reduce_only'], 'created_in_chunk': True},
                                      '%s %s order %d at %r was submitted in minute %d and stayed active to the end of the chunk %d..%d although minute %d traded its price (range %r)'
                                      % (o['type'], o['side'], o['oid'], o['price'], o['submit_minute'], mlo, mhi, later[0], r[later[0]])))
                        break
                continue
            if o['final_idx'] is not None and o['final_idx'] <= last:
                continue            # became final inside (or before) this phase
            lo = min(r[m][0] for m in range(mlo, min(mhi, len(r) - 1) + 1))
            hi = max(r[m][1] for m in range(mlo, min(mhi, len(r) - 1) + 1))
            stats['resting_survived_a_phase'] += 1
            if lo <= o['price'] <= hi:
                probs.append(('missed-fill', {'sim': simname, 'type': o['type'], 'reduce_only': o['reduce_only']},
                              '%s %s order %d at %r was active through minutes %d..%d whose range [%r, %r] contains its price'
                              % (o['type'], o['side'], o['oid'], o['price'], mlo, mhi, lo, hi)))
                break
    # quantity effect of every fill
    ev_exec = {}
    spot = case['cfg'].get('type') == 'spot'
    fee = case['cfg'].get('fee', 0)
    for ev in trace:
        if ev[0] == 'exec' and not ev[3]:
            ev_exec[ev[1]] = ev[4]
        elif ev[0] == 'exec_done' and ev[1] in ev_exec and ev[1] in orders:
            o = orders[ev[1]]
            before, after = ev_exec.pop(ev[1]), ev[2]
            if before is None or after is None:
                continue
            want = o['qty'] * ((1 - fee) if (spot and o['qty'] > 0) else 1)
            delta = after - before
            if o['reduce_only'] and abs(o['qty']) > abs(before) - 1e-12:
                want = -before
            if abs(delta - want) > 1e-9 * max(1, abs(want)) and not _nested(trace, ev[1]):
                probs.append(('fill-quantity', {'sim': simname}, 'order %d of qty %r changed the position by %r' % (o['oid'], o['qty'], delta)))
    return probs, stats


def _nested(trace, oid):
    """True when other executions happened inside this order's execute() (its qty delta is then not its own)."""
    inside = False
    for ev in trace:
        if ev[0] == 'exec' and ev[1] == oid:
            inside = True
        elif ev[0] == 'exec_done' and ev[1] == oid:
            return False
        elif inside and ev[0] == 'exec' and not ev[3]:
            return True
    return False


# ------------------------------------------------------------------ C08: one continuous path per minute

def path_of(candles, m):
    """polyline of minute m after gap normalisation: [p0, p1, p2, p3]"""
    r = candles[m]
    o, c, h, l = r[1], r[2], r[3], r[4]
    if m > 0:
        pc = candles[m - 1][2]
        if pc < o:
            l = min(pc, l)
        elif pc > o:
            h = max(pc, h)
        o = pc
    return [o, l, h, c] if c >= o else [o, h, l, c]


def first_arrival(path, p, start=0.0):
    d = 0.0
    for a, b in zip(path, path[1:]):
        seg = abs(b - a)
        lo, hi = min(a, b), max(a, b)
        if lo <= p <= hi:
            pos = d + abs(p - a)
            if pos >= start - 1e-12:
                return pos
        d += seg
    return None


def c08(trace, case):
    """Within every minute of the NORMAL simulator the sequence of fills must be a monotone walk along the path."""
    probs = []
    if case.get('fast'):
        return probs, {}
    orders = S.index_trace(trace)
    ph = phases(trace, case)
    stats = {'minutes_with_2plus_fills': 0, 'reaction_fills': 0}
    for sym, plist in ph.items():
        candles = case['candles'][sym]
        for first, last, m, _ in plist:
            if m >= len(candles):
                continue
            path = path_of(candles, m)
            cursor = 0.0
            nfill = 0
            created_at = {}
            active = set(oid for oid, o in orders.items() if o['symbol'] == sym and o['type'] != 'MARKET' and o['submit_idx'] < first
                         and (o['final_idx'] is None or o['final_idx'] > first))
            for idx in range(first, last + 1):
                ev = trace[idx]
                if ev[0] == 'submit' and ev[2] == sym:
                    created_at[ev[1]] = cursor
                    if ev[3] != 'MARKET' or (ev[9] and abs(1 - ev[6] / ev[9]) <= 0.00015 + 1e-9):
                        active.add(ev[1])       # a MARKET order placed at the current price sits at the point of the path where it was created
                if ev[0] == 'cancel' and not ev[3]:
                    active.discard(ev[1])
                if ev[0] != 'exec' or ev[3] or ev[1] not in orders:
                    continue
                o = orders[ev[1]]
                if o['symbol'] == sym and o['type'] == 'MARKET':
                    active.discard(o['oid'])
                if o['symbol'] != sym or o['type'] == 'MARKET':
                    continue
                active.discard(o['oid'])
                nfill += 1
                if o['oid'] in created_at:
                    stats['reaction_fills'] += 1
                    pos = first_arrival(path, o['price'], created_at[o['oid']])
                    kind = 'reaction'
                else:
                    pos = first_arrival(path, o['price'], 0.0)
                    kind = 'resting'
                if pos is None:
                    probs.append(('path-unreachable', {'kind': kind}, 'minute %d path %s: %s order %d at %r filled but the path %s does not reach it'
                                  % (m, path, kind, o['oid'], o['price'], 'after its creation' if kind == 'reaction' else '')))
                    continue
                if pos < cursor - 1e-9:
                    probs.append(('path-order', {'kind': kind, 'rising': path[3] >= path[0]},
                                  'minute %d path %s: %s order %d at %r is reached at distance %r but filled after an order reached at %r'
                                  % (m, path, kind, o['oid'], o['price'], pos, cursor)))
                    continue
                cursor = pos
                # nothing that the path reached strictly earlier may still be waiting
                for b in sorted(active):
                    ob = orders[b]
                    pb = created_at[b] if ob['type'] == 'MARKET' else first_arrival(path, ob['price'], created_at.get(b, 0.0))
                    if pb is not None and pb < pos - 1e-9:
                        probs.append(('path-skipped', {'skipped': 'market-reaction' if ob['type'] == 'MARKET' else 'reaction' if b in created_at else 'resting', 'filled': kind},
                                      'minute %d path %s: order %d at %r filled at distance %r while order %d at %r (reached at %r) was still waiting'
                                      % (m, path, o['oid'], o['price'], pos, b, ob['price'], pb)))
                        break
            # the minute is over: whatever the rest of the path reached after an order was there to be hit must have been filled
            for b in sorted(active):
                ob = orders[b]
                start = created_at.get(b, 0.0)
                pb = start if ob['type'] == 'MARKET' else first_arrival(path, ob['price'], start)
                if pb is not None and b in created_at:
                    probs.append(('path-missed', {'missed': 'market-reaction' if ob['type'] == 'MARKET' else 'reaction'},
                                  'minute %d path %s: order %d at %r was created at distance %r, the path reaches it at %r, but it was not filled in this minute'
                                  % (m, path, b, ob['price'], start, pb)))
                    break
            if nfill >= 2:
                stats['minutes_with_2plus_fills'] += 1
    return probs, stats


# ------------------------------------------------------------------ C05 on every order of a session

def c05(trace, end):
    probs = []
    for ev in trace:
        if ev[0] == 'final-call-effect':
            probs.append(('final-order-call-has-effect', {'call': ev[2]}, '%s() on final order %d changed the state: %r' % (ev[2], ev[1], ev[3])))
    # active list at the end of every simulator step: an order that was already final when this step's strategies started to
    # run must be gone (one that another route's strategy finalised during this very step may still be listed)
    final_idx = {}
    for i, ev in enumerate(trace):
        if ev[0] in ('exec', 'cancel') and not ev[3]:
            final_idx.setdefault(ev[1], i)
    prev_end = -1
    first_hook = None
    for i, ev in enumerate(trace):
        if ev[0] == 'hook' and first_hook is None:
            first_hook = i
        elif ev[0] == 'step-end':
            prev_end, first_hook = i, None
        elif ev[0] == 'active-list':
            h = first_hook if first_hook is not None else i
            old = [o for o in ev[3] if final_idx.get(o, i) < h]
            if old or ev[4]:
                probs.append(('active-list', {'stale': bool(old), 'missing': bool(ev[4])},
                              'at the end of the step at %r the active orders of %s still contain orders %s that were final before the step\'s strategies ran / lack non-final orders %s'
                              % (ev[2], ev[1], old, ev[4])))
                break
    nfinal_calls = sum(1 for ev in trace if ev[0] in ('exec', 'cancel') and ev[3])
    if end:
        for oid, field, was, now_ in end.get('final_changed', [])[:1]:
            probs.append(('final-order-changed', {'field': field}, 'order %d was %s = %r when it became final and is %r at the end of the session' % (oid, field, was, now_)))
        member = {}
        for t in end['trades']:
            for oid in t['orders']:
                member[oid] = member.get(oid, 0) + 1
        for k, oids in end['open_trades'].items():
            for oid in oids:
                member[oid] = member.get(oid, 0) + 1
        for oid, st in enumerate(end['final_statuses']):
            want = 1 if st == 'EXECUTED' else 0
            if member.get(oid, 0) != want:
                probs.append(('trade-record', {'status': st, 'times_recorded': member.get(oid, 0)}, 'order %d (%s) is recorded in %d trades' % (oid, st, member.get(oid, 0))))
        # one terminal transition
        seen = {}
        for ev in trace:
            if ev[0] in ('exec', 'cancel') and not ev[3]:
                if ev[1] in seen:
                    probs.append(('second-terminal-transition', {}, 'order %d went %s then %s' % (ev[1], seen[ev[1]], ev[0])))
                seen[ev[1]] = ev[0]
        for oid, st in enumerate(end['final_statuses']):
            want = {'exec': 'EXECUTED', 'cancel': 'CANCELED'}.get(seen.get(oid), 'ACTIVE')
            if st != want:
                probs.append(('status', {'model': want, 'impl': st}, 'order %d ends %s, its events say %s' % (oid, st, want)))
    return probs, {'calls_on_final_orders': nfinal_calls}


# ------------------------------------------------------------------ C06: events and trade log vs fills

def c06(trace, case, end):
    """Reference position automaton fed with the fills of the trace."""
    probs = []
    orders = S.index_trace(trace)
    spot = case['cfg'].get('type') == 'spot'
    fee = case['cfg'].get('fee', 0)
    pos = {}
    cyc = {}          # symbol -> open cycle dict
    exp_hooks = {}    # symbol -> [(name, size)]
    exp_trades = []
    flags = set()
    for ev in trace:
        if ev[0] != 'exec' or ev[3] or ev[1] not in orders:
            continue
        o = orders[ev[1]]
        s = o['symbol']
        now = ev[2]
        q0 = pos.get(s, 0.0)
        q = o['qty']
        if spot and q > 0:
            q = q * (1 - fee)
        nominal = abs(o['qty'])
        if o['reduce_only']:
            if q0 * q >= 0:
                filled = 0.0
            elif abs(q) > abs(q0) + 1e-12:
                filled = -q0
                flags.add('reduce_only_fill_smaller_than_order')
            else:
                filled = q
        else:
            filled = q
        if spot and q < 0 and abs(q) > abs(q0):
            filled = -q0
        if filled == 0:
            continue
        hooks = exp_hooks.setdefault(s, [])
        rec_qty = abs(filled) if not (spot and filled > 0) else nominal     # trade tables hold the order quantity of buys in spot
        if q0 == 0:
            pos[s] = filled
            cyc[s] = {'symbol': s, 'type': 'long' if filled > 0 else 'short', 'entries': [(rec_qty, o['price'])], 'exits': [], 'opened_at': now, 'orders': [o['oid']]}
            hooks.append(('on_open_position', filled))
        elif q0 * filled > 0:
            pos[s] = q0 + filled
            cyc[s]['entries'].append((rec_qty, o['price']))
            cyc[s]['orders'].append(o['oid'])
            hooks.append(('on_increased_position', pos[s]))
        elif abs(filled) < abs(q0) - 1e-12:
            pos[s] = q0 + filled
            cyc[s]['exits'].append((abs(filled), o['price']))
            cyc[s]['orders'].append(o['oid'])
            hooks.append(('on_reduced_position', pos[s]))
        else:
            rest = q0 + filled
            c = cyc.pop(s)
            c['exits'].append((abs(q0), o['price']))
            c['orders'].append(o['oid'])
            c['closed_at'] = now
            exp_trades.append(c)
            hooks.append(('on_close_position', 0.0))
            if abs(rest) > 1e-12:
                flags.add('flip')
                pos[s] = rest
                cyc[s] = {'symbol': s, 'type': 'long' if rest > 0 else 'short', 'entries': [(abs(rest), o['price'])], 'exits': [], 'opened_at': now, 'orders': [o['oid']]}
                hooks.append(('on_open_position', rest))
            else:
                pos[s] = 0.0
    sig = {k: True for k in sorted(flags)}
    # hooks
    got = {}
    for ev in trace:
        if ev[0] == 'hook' and ev[2] in ('on_open_position', 'on_increased_position', 'on_reduced_position', 'on_close_position'):
            got.setdefault(ev[1], []).append((ev[2], ev[5]))
    for s in set(exp_hooks) | set(got):
        e, g = exp_hooks.get(s, []), got.get(s, [])
        if [x[0] for x in e] != [x[0] for x in g]:
            k = next((i for i, (a, b) in enumerate(zip(e, g)) if a[0] != b[0]), min(len(e), len(g)))
            probs.append(('hook-sequence', dict(sig, expected=e[k][0] if k < len(e) else None, got=g[k][0] if k < len(g) else None),
                          '%s: fills imply hooks %s, strategy saw %s' % (s, [x[0][3:-9] for x in e], [x[0][3:-9] for x in g])))
        else:
            for (n1, q1), (n2, q2) in zip(e, g):
                if abs(q1 - q2) > 1e-9 * max(1, abs(q1)):
                    probs.append(('hook-position-size', dict(sig, hook=n1), '%s: %s saw position size %r, the fills imply %r' % (s, n1, q2, q1)))
                    break
    # trades
    gt = end['trades'] if end else []
    if len(gt) != len(exp_trades):
        probs.append(('trade-count', sig, '%d closed trades recorded, the fills form %d completed cycles' % (len(gt), len(exp_trades))))
    else:
        for t, c in zip(gt, exp_trades):
            eq = sum(a for a, _ in c['entries'])
            ep = sum(a * p for a, p in c['entries']) / eq
            xq = sum(a for a, _ in c['exits'])
            xp = sum(a * p for a, p in c['exits']) / xq
            want = {'symbol': c['symbol'], 'type': c['type'], 'qty': eq, 'entry': ep, 'exit': xp, 'opened_at': c['opened_at'], 'closed_at': c['closed_at'], 'orders': c['orders']}
            for k in ('symbol', 'type', 'orders', 'opened_at', 'closed_at'):
                if t[k] != want[k]:
                    probs.append(('trade-field', dict(sig, field=k), 'trade %r: %s is %r, the fills say %r' % (c['orders'], k, t[k], want[k])))
            for k in ('qty', 'entry', 'exit'):
                if not (abs(t[k] - want[k]) <= 1e-9 * max(1, abs(want[k]))):
                    probs.append(('trade-field', dict(sig, field=k), 'trade %r: %s is %r, the fills say %r' % (c['orders'], k, t[k], want[k])))
    # wallet identity (futures)
    if end and not spot:
        q = [a for a in end['assets'] if a in end['starting'] and end['starting'][a] != 0][0]
        change = end['assets'][q] - end['starting'][q]
        total = sum(t['pnl'] for t in gt)
        if abs(change - total) > 1e-7 * max(1.0, abs(end['starting'][q])) * 1e-2:
            probs.append(('trades-vs-wallet', sig, 'sum of trade PnL %r, wallet changed by %r' % (total, change)))
        m = end.get('metrics')
        if m and 'net_profit' in m:
            if abs(m['net_profit'] - (m['finishing_balance'] - m['starting_balance'])) > 1e-7 * max(1.0, abs(m['starting_balance'])) * 1e-2:
                probs.append(('metrics-net-profit-vs-balance', sig, 'net_profit %r but finishing-starting balance %r' % (m['net_profit'], m['finishing_balance'] - m['starting_balance'])))
    stats = {'completed_cycles': len(exp_trades), 'flips': int('flip' in flags), 'oversize_reduce_only': int('reduce_only_fill_smaller_than_order' in flags),
             'hooks': sum(len(v) for v in exp_hooks.values())}
    return probs, stats
