"""C05 - order life-cycle: one terminal transition, idempotent execute/cancel, active list, one trade per fill.

Engine B on the real Order / OrdersState / Sandbox / ClosedTrades objects, spot and futures.  The systems
are the C03/C04 account systems with the life-cycle alphabet added: MARKET orders stay queued until an
explicit flush, execute()/cancel() may be called on ANY order (also final ones, repeatedly),
cancel_all_orders, execute_pending_market_orders and update_active_orders are separate operations.
"""
from .. import bfs
from . import c03, c04

ID = 'C05'


class LifeMixin:
    def life_init(self):
        self.queue = []          # indices of queued MARKET orders (reference)

    def life_check(self, sym_of):
        from jesse.store import store
        from .. import acct
        # (1) statuses: one terminal transition, frozen afterwards
        for i, (o, r) in enumerate(zip(self.objs, self.ref_orders())):
            if o.status != r['st']:
                self.problems.append(('status', {'model': r['st'], 'impl': o.status},
                                      'order %d is %s, life-cycle model says %s' % (i, o.status, r['st'])))
        # (3) active counts / lists per symbol
        for s in self.symbols():
            nonfinal = [i for i, r in enumerate(self.ref_orders()) if r['st'] == 'ACTIVE' and sym_of(r) == s]
            n = store.orders.count_active_orders(acct.EXCHANGE, s)
            if n != len(nonfinal):
                self.problems.append(('active-count', {}, 'count_active_orders(%s)=%d, non-final submitted orders %s' % (s, n, nonfinal)))
        # (4) every executed order in exactly one trade
        trades = list(store.completed_trades.trades) + list(store.completed_trades.tempt_trades.values())
        for i, o in enumerate(self.objs):
            c = sum(1 for t in trades for x in t.orders if x is o)
            want = 1 if o.status == 'EXECUTED' else 0
            if c != want:
                self.problems.append(('trade-record', {'status': o.status, 'times_recorded': c},
                                      'order %d (%s) is recorded in %d trades' % (i, o.status, c)))

    def life_apply(self, op):
        """returns None if op is not a life-cycle op"""
        from jesse.store import store
        from .. import acct
        kind = op[0]
        if kind == 'flush':
            store.orders.execute_pending_market_orders()
            for i in self.queue:
                self.ref_execute(i)
            self.queue = []
            return 'ok'
        if kind == 'cancel_all':
            self.api.cancel_all_orders(op[1])
            for i, r in enumerate(self.ref_orders()):
                if self.sym_of(r) == op[1]:
                    self.ref_cancel(i)
            return 'ok'
        if kind == 'update_active':
            store.orders.update_active_orders(acct.EXCHANGE, op[1])
            got = [o for o in store.orders.get_active_orders(acct.EXCHANGE, op[1])]
            want = [self.objs[i] for i, r in enumerate(self.ref_orders()) if r['st'] == 'ACTIVE' and self.sym_of(r) == op[1]]
            if sorted(map(id, got)) != sorted(map(id, want)):
                self.problems.append(('active-list', {}, 'after update_active_orders get_active_orders has %d orders, %d are non-final'
                                      % (len(got), len(want))))
            return 'ok'
        if kind in ('exe', 'can') and self.ref_orders()[op[1]]['st'] != 'ACTIVE':
            before = self.canon()
            if kind == 'exe':
                self.objs[op[1]].execute()
            else:
                self.objs[op[1]].cancel()
            after = self.canon()
            if before != after:
                diff = [(a, b) for a, b in zip(before, after) if a != b][:2]
                self.problems.append(('final-order-call-has-effect', {'call': kind, 'status': self.ref_orders()[op[1]]['st']},
                                      '%s() on %s order %d changed the state: %r' % (kind, self.ref_orders()[op[1]]['st'], op[1], diff)))
            return 'ok'
        return None


class LifeFut(LifeMixin, c03.FutSys):
    def __init__(self, cfg):
        c03.FutSys.__init__(self, cfg)
        self.life_init()

    def ref_orders(self):
        return self.ref.orders

    def ref_execute(self, i):
        self.ref.execute(i)

    def ref_cancel(self, i):
        self.ref.cancel(i)

    def symbols(self):
        return self.syms

    @staticmethod
    def sym_of(r):
        return r['s']

    def after_market_submit(self):
        self.queue.append(len(self.ref.orders) - 1)    # stays queued until 'flush'

    def enabled(self):
        ops = [o for o in c03.FutSys.enabled(self) if o[0] not in ('exe', 'can')]
        for i in range(len(self.objs)):
            ops += [('exe', i), ('can', i)]
        if self.objs:
            ops.append(('flush',))
            for s in self.syms:
                ops += [('cancel_all', s), ('update_active', s)]
        return ops

    def apply(self, op):
        try:
            r = self.life_apply(op)
        except Exception as e:
            self.problems.append(('unexpected-exception', {'op': op[0], 'exc': type(e).__name__}, '%s raised %r' % (op, e)))
            return 'ok'
        if r is not None:
            return r
        if op[0] in ('exe', 'can') and op[1] in self.queue:
            self.queue.remove(op[1])
        return c03.FutSys.apply(self, op)

    def check(self):
        c03.FutSys.check(self)
        self.life_check(self.sym_of)


class LifeSpot(LifeMixin, c04.SpotSys):
    def __init__(self, cfg):
        c04.SpotSys.__init__(self, cfg)
        self.life_init()

    def ref_orders(self):
        return self.ref

    def ref_execute(self, i):
        self._ref_fill(self.ref[i])

    def ref_cancel(self, i):
        self._ref_cancel(self.ref[i])

    def symbols(self):
        return (c04.SYM,)

    @staticmethod
    def sym_of(r):
        return c04.SYM

    def after_market_submit(self, r):
        self.queue.append(len(self.ref) - 1)

    def enabled(self):
        ops = [o for o in c04.SpotSys.enabled(self) if o[0] not in ('exec', 'cancel')]
        for i in range(len(self.objs)):
            ops += [('exe', i), ('can', i)]
        if self.objs:
            ops += [('flush',), ('cancel_all', c04.SYM), ('update_active', c04.SYM)]
        return ops

    def apply(self, op):
        try:
            r = self.life_apply(op)
        except Exception as e:
            self.problems.append(('unexpected-exception', {'op': op[0], 'exc': type(e).__name__}, '%s raised %r' % (op, e)))
            return 'ok'
        if r is not None:
            return r
        if op[0] in ('exe', 'can'):
            if op[1] in self.queue:
                self.queue.remove(op[1])
            op = ('exec' if op[0] == 'exe' else 'cancel', op[1])
        return c04.SpotSys.apply(self, op)

    def check(self):
        c04.SpotSys.check(self)
        self.life_check(self.sym_of)


bfs.register('life-futures', LifeFut)
bfs.register('life-spot', LifeSpot)


def configs(ctx):
    base, tick, u = ctx.embedding
    P = base
    fut = {'L': 2, 'fee': 0.001, 'balance': 300.0 * (P / 100.0) * u, 'nsym': 1, 'P': P, 'u': u, 'max_live': 3,
           'prices': [0.9, 'M'], 'qtys': [1.0, 2.0], 'marks': [], 'probe': False}
    fut2 = dict(fut, nsym=2, qtys=[1.0], max_live=2)
    spot = {'fee': 0.001, 'balance': 25 * u * (base / 100.0), 'u': u, 'p': base / 100.0}
    if ctx.quick:
        return [('life-futures', fut, 5), ('life-futures', fut2, 4), ('life-spot', spot, 4)]
    return [('life-futures', fut, 6), ('life-futures', dict(fut, prices=[0.9, 1.1, 'M']), 5), ('life-futures', fut2, 6), ('life-spot', spot, 5)]


def _session(args):
    """life-cycle clauses on every order of a real backtest session (two routes sharing one exchange, both simulators)"""
    from . import c02
    from .. import session as S, fills, progs
    from ..core import Violation
    word, pname, prog, kind, fast, emb, p2name, chunk = args
    prog2 = (progs.route_follower(emb[1], emb[2])[1] if p2name == 'route-follower' else dict(progs.programs(emb[1], emb[2], kind))[p2name]) if p2name else None
    case = c02.build_case(word, prog, kind, fast, emb, prog2=prog2, chunk=chunk)
    r = S.run_session(case)
    ident = {'session': True, 'word': list(word), 'program': pname, 'kind': kind, 'fast': fast, 'embedding': list(emb), 'program2': p2name, 'chunk': chunk}
    if r['error']:
        return {'viols': [Violation('unexpected-exception', {'exc': r['error'][0]}, ident, '%s: %s' % r['error'][:2]).to_json()], 'stats': {}}
    probs, stats = fills.c05(r['trace'], r['end'])
    stats['orders'] = len(r['end']['final_statuses']) if r['end'] else 0
    return {'viols': [Violation(c, dict(sig, via='session'), ident, m).to_json() for c, sig, m in probs], 'stats': stats}


def _liq_session(args):
    """the same life-cycle clauses on isolated-margin sessions that end in a forced close (the C09 scenarios): the liquidation
    order and the resting orders it cancels"""
    from . import c09
    from .. import fills
    from ..core import Violation
    L, side, averaged, where, stop, fast, emb, tp = args
    ident = {'liq_session': True, 'leverage': L, 'side': side, 'averaged': averaged, 'where': where, 'stop': stop, 'fast': fast, 'embedding': list(emb), 'tp': tp}
    case, r, lb = c09.scenario(L, side, averaged, where, 1, stop, 'futures', 'isolated', fast, emb, tp)
    if r['error']:
        return {'viols': [Violation('unexpected-exception', {'exc': r['error'][0]}, ident, '%s: %s' % r['error'][:2]).to_json()], 'stats': {}}
    probs, stats = fills.c05(r['trace'], r['end'])
    stats['orders'] = len(r['end']['final_statuses']) if r['end'] else 0
    stats['forced_closes'] = int(r['end']['liquidations']) if r['end'] else 0
    return {'viols': [Violation(c, dict(sig, via='liquidation-session'), ident, m).to_json() for c, sig, m in probs], 'stats': stats}


def liq_cases(ctx):
    emb = ctx.embedding
    for L in (2, 10):
        for side in ('long', 'short'):
            for averaged in (False, True):
                for where in ('cross', 'gap-over'):
                    for stop in (None, ['beyond', 2]):
                        for fast in (False, True):
                            for tp in (None, 'partial'):
                                yield (L, side, averaged, where, stop, fast, emb, tp)


def session_cases(ctx):
    from . import c02
    for c in c02.cases(ctx):
        if len(c) > 6 and c[6]:          # the two-symbol sessions of the C02 space
            yield c
        elif len(c) == 6 and c[1] in ('long-market-scaleout-at-market', 'short-limit-2leg') and ctx.quick is False:
            yield tuple(c) + (None, 3)


def run(ctx):
    from .. import core
    from ..core import Violation
    cfgs = configs(ctx)
    for name, cfg, depth in cfgs:
        bfs.search(ctx, name, cfg, depth)
    sc = list(session_cases(ctx))
    sigs = set()
    for r in core.pmap(_session, sc, chunksize=32):
        for k, v in r['stats'].items():
            ctx.count('session:' + k, v)
        for v in r['viols']:
            v = Violation.from_json(v)
            if v.sigkey() not in sigs:
                sigs.add(v.sigkey())
                ctx.add(v)
    lc = list(liq_cases(ctx))
    for r in core.pmap(_liq_session, lc, chunksize=8):
        for k, v in r['stats'].items():
            ctx.count('liquidation-session:' + k, v)
        for v in r['viols']:
            v = Violation.from_json(v)
            if v.sigkey() not in sigs:
                sigs.add(v.sigkey())
                ctx.add(v)
    ctx.coverage['traces_validated_against_impl'] += len(sc) + len(lc)
    ctx.coverage['bounds']['liquidation_sessions'] = len(lc)
    ctx.coverage['bounds']['sessions'] = len(sc)
    cov = ctx.coverage
    cov['evaluations'] = cov['transitions']
    cov['distinct_nontrivial'] = cov['states']
    cov['rule'] = ('BFS over submit / execute / cancel (also on final orders) / cancel-all / flush-market-queue / update-active histories on the '
                   'real order registries; distinct = canonical implementation states; in every state order statuses, active counts and '
                   'trade membership are compared with a 3-state life-cycle model, and calls on final orders must leave the canonical state identical')
    cov['bounds'].update({'configs': [{'system': n, 'cfg': c, 'depth': d} for n, c, d in cfgs]})
    ctx.assumptions += ['account comparison of C03/C04 stays switched on, so a life-cycle bug that only shows in balances is caught here too',
                        'closing a position cancels what rests on that symbol (real strategy close path)']


def replay(case, ctx):
    if case.get('liq_session'):
        from ..core import Violation
        r = _liq_session((case['leverage'], case['side'], case['averaged'], case['where'], case['stop'], case['fast'], tuple(case['embedding']), case['tp']))
        return [Violation.from_json(v) for v in r['viols']]
    if case.get('session'):
        from .. import progs
        from ..core import Violation
        emb = tuple(case.get('embedding') or ctx.embedding)
        P = dict(progs.programs(emb[1], emb[2], case['kind']))
        r = _session((tuple(case['word']), case['program'], P[case['program']], case['kind'], case['fast'], emb, case.get('program2'), case.get('chunk', 3)))
        return [Violation.from_json(v) for v in r['viols']]
    cfg = case['cfg']
    name = 'life-spot' if 'nsym' not in cfg else 'life-futures'
    return bfs.replay(name, cfg, [tuple(o) for o in case['history']])
