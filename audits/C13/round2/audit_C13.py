"""
Audit of property C13 (indicator series are causal), second round.

Run:  cd /tmp/wtb_C13 && /venv/bin/python audit_C13.py
Exit code 1 and a short explanation when a violation is observed, exit code 0 otherwise.

Clause checked: "every field of the series computed on a prefix of the input equals the corresponding
prefix of the series computed on the full input" (only minmax is exempt).
"""
import sys
import warnings

warnings.filterwarnings('ignore')

import numpy as np

import jesse.indicators as ta


def candles(n, seed=0, scale=100.0):
    r = np.random.RandomState(seed)
    ts = 1609459200000 + np.arange(n) * 60000
    c = scale * np.exp(np.cumsum(r.normal(0, 0.01, n)))
    o = np.roll(c, 1)
    o[0] = c[0]
    h = np.maximum(o, c) * (1 + np.abs(r.normal(0, 0.002, n)))
    l = np.minimum(o, c) * (1 - np.abs(r.normal(0, 0.002, n)))
    v = np.abs(r.normal(100, 30, n))
    return np.column_stack([ts, o, c, h, l, v]).astype(float)


def differs(a, b, tol=1e-9):
    """positions where two equally long float series differ (NaN == NaN, relative tolerance tol)"""
    a = np.asarray(a, dtype=float)
    b = np.asarray(b, dtype=float)
    same = (a == b) | (np.isnan(a) & np.isnan(b))
    with np.errstate(invalid='ignore', divide='ignore'):
        close = np.abs(a - b) <= tol * np.maximum(np.abs(a), np.abs(b))
    return np.where(~(same | close))[0]


violations = []

# --------------------------------------------------------------------------------------------------
# 1. gatorosc: the vectorised EWMA scales every term by (1-alpha)**(n-1) and (1-alpha)**(-k), n being
#    the length of the WHOLE input. Beyond ~3200 candles the factors under/overflow: values that are
#    perfectly defined on a prefix become garbage and then NaN when more candles are appended.
# --------------------------------------------------------------------------------------------------
X = candles(9000, seed=0)
K = 300
pre = ta.gatorosc(X[:K], sequential=True)
for n in (3000, 3360, 3500, 6000, 9000):
    full = ta.gatorosc(X[:n], sequential=True)
    report = []
    for f in full._fields:
        d = differs(np.asarray(getattr(full, f))[:K], getattr(pre, f))
        if len(d):
            i = int(d[0])
            report.append(f"{f}: {len(d)}/{K} differ, e.g. [{i}] prefix={getattr(pre, f)[i]:.6g} full={np.asarray(getattr(full, f))[i]:.6g}")
    if report:
        violations.append(f"gatorosc: first {K} values on {K} candles vs. on {n} candles -> " + '; '.join(report))

# --------------------------------------------------------------------------------------------------
# 2. damiani_volatmeter: atr() of a series shorter than its period stores mean(tr) in the LAST slot.
#    With an ATR period larger than sed_std + 1 (e.g. just sed_std=30, everything else default) the prefix of
#    sed_std + 1 candles reports a finite vol at its last index, every longer input reports NaN there.
# --------------------------------------------------------------------------------------------------
X = candles(400, seed=0)
for kw in ({'sed_std': 30}, {'sed_atr': 120}, {'vis_atr': 120}):
    k = kw.get('sed_std', 100) + 1
    full = ta.damiani_volatmeter(X, sequential=True, **kw)
    pre = ta.damiani_volatmeter(X[:k], sequential=True, **kw)
    d = differs(full.vol[:k], pre.vol)
    if len(d):
        i = int(d[0])
        violations.append(f"damiani_volatmeter{kw}: vol[{i}] = {pre.vol[i]:.6g} on the first {k} candles, {full.vol[i]:.6g} on all {len(X)}")

# --------------------------------------------------------------------------------------------------
# 3. ichimoku_cloud_seq(displacement=0): lagging_line = np_shift(close, displacement - 1) = np_shift(close, -1),
#    i.e. lagging_line[i] = close[i + 1].
# --------------------------------------------------------------------------------------------------
k = 100
full = ta.ichimoku_cloud_seq(X, 9, 26, 52, 0, sequential=True)
pre = ta.ichimoku_cloud_seq(X[:k], 9, 26, 52, 0, sequential=True)
d = differs(full.lagging_line[:k], pre.lagging_line)
if len(d):
    i = int(d[0])
    violations.append(f"ichimoku_cloud_seq(displacement=0): lagging_line[{i}] = {pre.lagging_line[i]} on the first {k} candles, "
                      f"{full.lagging_line[i]:.6g} on all {len(X)} (= close[{i + 1}] = {X[i + 1, 2]:.6g})")

# --------------------------------------------------------------------------------------------------
# 4. squeeze_momentum: momentum_signal has one element LESS than candles/squeeze/momentum and element i is
#    computed from momentum[i + 1]: two inputs that share candles 0..k-1 differ in momentum_signal[k-1].
#    (Wording of the title: "value i depends only on candles 0..i".)
# --------------------------------------------------------------------------------------------------
a = ta.squeeze_momentum(X, sequential=True)
hit = None
for kk in range(40, 200):
    Y = X.copy()
    Y[kk:, 1:5] = candles(400, seed=7, scale=37.0)[kk:, 1:5]
    b = ta.squeeze_momentum(Y, sequential=True)
    if a.momentum_signal[kk - 1] != b.momentum_signal[kk - 1]:
        hit = (kk, a.momentum_signal[kk - 1], b.momentum_signal[kk - 1])
        break
if hit or len(a.momentum_signal) != len(X):
    violations.append(f"squeeze_momentum: len(momentum_signal) = {len(a.momentum_signal)} for {len(X)} candles; two inputs sharing "
                      f"candles 0..{hit[0] - 1} give momentum_signal[{hit[0] - 1}] = {hit[1]} vs {hit[2]}" if hit else
                      f"squeeze_momentum: len(momentum_signal) = {len(a.momentum_signal)} for {len(X)} candles")

if violations:
    print("C13 VIOLATED: indicator series that change their past when candles are appended")
    for v in violations:
        print(" -", v)
    sys.exit(1)
print("C13: no violation observed")
sys.exit(0)
