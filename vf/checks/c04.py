"""C04 - spot balances equal a cash-account model; no overspending or overselling.

Engine B over the real SpotExchange / Position / Order / OrdersState objects.  Reference: a cash
account in exact rationals (reserve on buy submission, release on cancellation, qty*(1-fee) base on
buy fill, qty*price*(1-fee) quote on sell fill, rejection thresholds of the statement).
"""
from fractions import Fraction as F
from decimal import Decimal

from .. import core, bfs
from ..core import Violation

ID = 'C04'
SYM = 'BTC-USDT'
REL = 1e-9


def fr(x):
    return F(Decimal(str(float(x))))


def near(a, b, rel=REL, abs_=1e-12):
    a = float(a)
    b = float(b)
    return abs(a - b) <= max(abs_, rel * max(abs(a), abs(b)))


class SpotSys:
    def __init__(self, cfg):
        from .. import acct
        self.cfg = cfg
        fee, balance, u, p = cfg['fee'], cfg['balance'], cfg['u'], cfg['p']
        self.u, self.p = u, p
        self.api, self.ex, pos = acct.fresh('spot', fee, balance, symbols=(SYM,), price=10 * p)
        self.pos = pos[SYM]
        self.acct = acct
        if cfg.get('keep_on_close'):
            # order-level histories without the strategy layer's clean-up: what rests when the holding is sold stays resting
            from jesse.routes import router
            router.routes[0].strategy._execute_cancel = lambda: None
        self.objs = []
        self.problems = []
        self.end_reason = ''
        # reference cash account
        self.fee = fr(fee)
        self.Q = fr(balance)
        self.B = F(0)
        self.ref = []   # dicts: side,type,q,p,live
        # start from a non-initial state: a holding with a ladder of resting exits (ops outside the BFS alphabet allowed)
        for op in cfg.get('prefix', []):
            self.apply(tuple(op))

    # ---------------------------------------------------------------- alphabet
    def enabled(self):
        u, p = self.u, self.p
        ops = []
        live = [i for i, o in enumerate(self.ref) if o['live']]
        if len(live) < 3:
            for q in (1.0, 0.3):
                ops.append(('buy', 'MARKET', q * u, 10 * p))
            for q, pr in ((1.0, 10.0), (0.3, 10.0), (0.1, 0.7), (1.0, 0.7)):
                ops.append(('buy', 'LIMIT', q * u, pr * p))
            ops.append(('buy', 'STOP', 0.2 * u, 33 * p / 10))
            for typ, pr in (('MARKET', 10.0), ('LIMIT', 11.0), ('STOP', 9.0)):
                for q in ('all', 'half', 0.1 * u, 0.3 * u) + (('free',) if self.cfg.get('prefix') else ()):
                    if q in ('all', 'half', 'free') and self.B == 0:
                        continue
                    ops.append(('sell', typ, q, pr * p))
        for i in live:
            if self.cfg.get('keep_on_close') and self.ref[i]['side'] == 'sell' and self.ref[i]['q'] > self.B:
                # (a resting sell that is no longer covered: its fill is outside what the cash account defines)
                ops.append(('cancel', i))
                continue
            ops.append(('exec', i))
            ops.append(('cancel', i))
        return ops

    # ---------------------------------------------------------------- transitions
    def _flag(self):
        if self.cfg.get('raw'):
            self.problems = [(c, dict(sg, raw_sells=True), m) for c, sg, m in self.problems]

    def apply(self, op):
        try:
            return self._apply(op)
        finally:
            self._flag()

    def _apply(self, op):
        from jesse import exceptions
        try:
            if op[0] in ('buy', 'sell'):
                return self._submit(*op)
            i = op[1]
            o = self.objs[i]
            r = self.ref[i]
            if op[0] == 'exec':
                o.execute()
                self._ref_fill(r)
            else:
                o.cancel()
                self._ref_cancel(r)
            return 'ok'
        except (exceptions.InsufficientBalance, exceptions.InsufficientMargin):
            raise
        except Exception as e:
            self.problems.append(('unexpected-exception', {'op': op[0], 'exc': type(e).__name__}, '%s raised %r' % (op, e)))
            return 'ok'

    def _submit(self, side, typ, q, price):
        from jesse import exceptions
        base = 'BTC'
        if q == 'all':
            q = self.ex.assets[base]
        elif q == 'half':
            q = self.ex.assets[base] / 2
        elif q == 'free':
            # "sell whatever is not yet committed": the exact decimal remainder next to the resting sells of the competing kind
            kind = 'LIMIT' if typ == 'MARKET' else typ
            rest = self.B - sum(o['q'] for o in self.ref if o['live'] and o['side'] == 'sell' and o['type'] == kind)
            if rest <= 0:
                return 'end'
            q = float(rest)
        qf, pf = fr(q), fr(price)
        # reference verdict
        if side == 'buy':
            need, have = qf * pf, self.Q
        else:
            if typ == 'MARKET':
                need = qf + sum(o['q'] for o in self.ref if o['live'] and o['side'] == 'sell' and o['type'] == 'LIMIT')
            else:
                need = qf + sum(o['q'] for o in self.ref if o['live'] and o['side'] == 'sell' and o['type'] == typ)
            have = self.B
        # dust from float fee arithmetic makes verdicts next to the threshold dont-care - but not AT it: when the exact
        # decimal account says "exactly enough", the order must be accepted (the implementation computes in decimal too)
        dontcare = near(need, have) and need != have
        expect_reject = need > have
        fn = {'MARKET': self.api.market_order, 'LIMIT': self.api.limit_order, 'STOP': self.api.stop_order}[typ]
        try:
            o = fn(SYM, q, price, side, side == 'sell' and not self.cfg.get('raw'))
            rejected = False
        except exceptions.InsufficientBalance:
            rejected = True
        except Exception as e:
            self.problems.append(('unexpected-exception', {'op': side, 'exc': type(e).__name__}, 'submit %s %s raised %r' % (side, typ, e)))
            return 'ok'
        if not dontcare and rejected != expect_reject:
            self.problems.append(('rejection', {'side': side, 'type': typ, 'impl': 'rejected' if rejected else 'accepted'},
                                  '%s %s qty=%r price=%r was %s; cash account: committed %s vs available %s'
                                  % (side, typ, q, price, 'rejected' if rejected else 'accepted', float(need), float(have))))
            return 'ok'
        if rejected:
            self.end_reason = 'rejected-' + side
            return 'end'
        self.objs.append(o)
        r = {'side': side, 'type': typ, 'q': qf, 'p': pf, 'live': True, 'st': 'ACTIVE'}
        self.ref.append(r)
        if side == 'buy':
            self.Q -= qf * pf
        if typ == 'MARKET':
            self.after_market_submit(r)
        return 'ok'

    def after_market_submit(self, r):
        from jesse.store import store
        store.orders.execute_pending_market_orders()
        self._ref_fill(r)

    def _ref_fill(self, r):
        if not r['live']:
            return
        r['live'] = False
        r['st'] = 'EXECUTED'
        if r['side'] == 'buy':
            self.B += r['q'] * (1 - self.fee)
        else:
            q = min(r['q'], self.B)
            self.Q += q * r['p'] * (1 - self.fee)
            self.B -= q
            closed = self.B == 0
            if not closed and near(q, self.B + q):
                # the fill is within float rounding (1e-9 relative) of the whole holding: whether a
                # last-bit remainder survives is not decided by the property (DESIGN 2.5): follow the code
                self.dust = getattr(self, 'dust', 0) + 1
                closed = self.pos.is_close
                self.B = fr(self.ex.assets['BTC']) if not closed else F(0)
            if closed and not self.cfg.get('keep_on_close'):
                # position closed: the strategy layer cancels everything resting
                for o in self.ref:
                    if o['live']:
                        self._ref_cancel(o)

    def _ref_cancel(self, r):
        if not r['live']:
            return
        r['live'] = False
        r['st'] = 'CANCELED'
        if r['side'] == 'buy':
            self.Q += r['q'] * r['p']

    # ---------------------------------------------------------------- oracle
    def check(self):
        ex, pos = self.ex, self.pos
        q_impl, b_impl = ex.assets['USDT'], ex.assets['BTC']
        if not near(q_impl, self.Q):
            self.problems.append(('quote-balance', {}, 'quote balance %r, cash account %r' % (q_impl, float(self.Q))))
        if not near(b_impl, self.B):
            self.problems.append(('base-balance', {}, 'base balance %r, cash account %r' % (b_impl, float(self.B))))
        if q_impl < -1e-12 or b_impl < -1e-12:
            self.problems.append(('negative-balance', {}, 'balances quote=%r base=%r' % (q_impl, b_impl)))
        if not near(pos.qty, b_impl):
            self.problems.append(('position-size', {}, 'position qty %r but base balance %r' % (pos.qty, b_impl)))
        if pos.qty < -1e-12:
            self.problems.append(('short-position', {}, 'position qty %r in spot' % (pos.qty,)))
        live_impl = [i for i, o in enumerate(self.objs) if o.is_active]
        live_ref = [i for i, o in enumerate(self.ref) if o['live']]
        if live_impl != live_ref:
            self.problems.append(('live-orders', {}, 'active orders %s, model %s' % (live_impl, live_ref)))
        self._flag()

    def canon(self):
        k = self.acct.canon_common(self.ex, {SYM: self.pos}, self.objs)
        k.append(tuple(sorted((s, repr(v)) for s, v in self.ex.stop_orders_sum.items())))
        k.append(tuple(sorted((s, repr(v)) for s, v in self.ex.limit_orders_sum.items())))
        return tuple(k)


bfs.register('spot', SpotSys)


def configs(ctx):
    base, tick, u = ctx.embedding
    p = base / 100.0
    out = []
    for fee in ((0.001,) if ctx.quick else (0, 0.001, 0.00075)):
        out.append({'fee': fee, 'balance': 25 * u * p, 'u': u, 'p': p})
    # sells submitted the way a strategy's raw broker calls (broker.sell_at, sell_at_market, start_profit_at) submit them:
    # NOT reduce-only
    out.append({'fee': 0.001, 'balance': 25 * u * p, 'u': u, 'p': p, 'depth': 4, 'raw': True})
    # the same histories without the strategy layer's cancel-everything-on-close: resting sells survive a sale of the whole holding
    out.append({'fee': 0.001, 'balance': 25 * u * p, 'u': u, 'p': p, 'depth': 5, 'keep_on_close': True})
    # a holding of 1.0 with two resting exits of 0.1 and 0.7 (decimal fractions that are inexact in binary), limit and stop ladders
    for typ, pr in (('LIMIT', 11.0), ('STOP', 9.0)):
        out.append({'fee': 0.0, 'balance': 25 * u * p, 'u': u, 'p': p, 'depth': 4,
                    'prefix': [['buy', 'MARKET', 1.0 * u, 10 * p], ['sell', typ, 0.1 * u, pr * p], ['sell', typ, 0.7 * u, pr * p]]})
    return out


def run(ctx):
    depth = 5 if ctx.quick else 6
    for cfg in configs(ctx):
        bfs.search(ctx, 'spot', cfg, cfg.get('depth', depth) + (0 if ctx.quick or 'depth' not in cfg else 1))
    cov = ctx.coverage
    cov['evaluations'] = cov['transitions']
    cov['distinct_nontrivial'] = cov['states']
    cov['rule'] = ('BFS over submit/execute/cancel histories on the real spot exchange, position and order objects; '
                   'distinct = canonical implementation states (balances, sums, position, every order, registries, trade tables); '
                   'every state is compared with the exact cash-account model')
    cov['bounds'].update({'depth': depth, 'max_live_orders': 3, 'configs': configs(ctx)})
    ctx.assumptions += ['sell orders are submitted reduce-only, as the strategy layer submits exits; closing the position cancels everything resting (real strategy close path)',
                        'MARKET submission and its flush are one atomic step here (their interleavings belong to C05)',
                        'rejection verdicts within 1e-9 relative of the threshold are dont-care',
                        'configuration keep_on_close: the strategy layer\'s cancel-on-close is switched off so that resting sells survive the sale of the holding; '
                        'the fill of a resting sell that is larger than the base held is not in its alphabet (the cash account does not define it)']


def replay(case, ctx):
    return bfs.replay('spot', case['cfg'], [tuple(o) for o in case['history']])
