"""
Audit of property C10 (smart order routing and declarative exit orders) against the real jesse code.

Run:  cd /tmp/wta_C10 && /venv/bin/python audit_C10.py
Exit code 1 = at least one violation reproduced, 0 = none.

Nothing in jesse is modified or monkeypatched; only research.backtest() with hand-made 1m candles is used and
the orders are read back through Strategy.orders.
"""
import sys
import warnings

warnings.filterwarnings('ignore')

import numpy as np
import jesse.helpers as jh
from jesse.strategies import Strategy
from jesse import research
from jesse.store import store

T0 = 1609459200000
CFG = {'starting_balance': 10_000_000, 'fee': 0, 'type': 'futures', 'futures_leverage': 2,
       'futures_leverage_mode': 'cross', 'exchange': 'Sandbox', 'warm_up_candles': 0}


def mk(rows):
    # rows of (open, close, high, low)
    return np.array([[T0 + i * 60000, o, c, h, l, 10.0] for i, (o, c, h, l) in enumerate(rows)], dtype=float)


def backtest(strategy, rows, timeframe='1m', fast=False):
    jh.CACHED_CONFIG.clear()
    research.backtest(
        CFG,
        [{'exchange': 'Sandbox', 'strategy': strategy, 'symbol': 'BTC-USDT', 'timeframe': timeframe}],
        [],
        {'Sandbox-BTC-USDT': {'exchange': 'Sandbox', 'symbol': 'BTC-USDT', 'candles': mk(rows)}},
        fast_mode=fast,
    )


# ---------------------------------------------------------------------------------------------------------
# A. an exit that is asked for is never submitted: liquidate() (or any re-declaration) that happens to equal
#    a row that was declared earlier in the trade and has already been FILLED
# ---------------------------------------------------------------------------------------------------------
def check_a():
    rec = {}

    class S(Strategy):
        def should_long(self):
            return self.index == 0

        def go_long(self):
            self.buy = (2, self.price)      # 2 @ 100, market
            self.take_profit = (1, 110)     # take half off at 110

        def update_position(self):
            if self.index == 3:
                # qty is 1 now (the limit at 110 was filled), price is 110, pnl > 0
                rec['before'] = (self.price, self.position.qty, self.position.pnl, len(self.orders))
                self.liquidate()            # == self.take_profit = (1, 110): an exit of 1 @ current price

        def after(self):
            if self.index == 3:
                rec['after'] = (self.price, self.position.qty,
                                [(o.type, o.side, o.qty, o.price, o.status) for o in self.orders])
            rec['last_qty'] = self.position.qty

    rows = [(100, 100, 100, 100), (100, 105, 105, 100), (105, 110, 110, 105), (110, 110, 110, 110),
            (110, 111, 111, 110), (111, 112, 112, 111)]
    backtest(S, rows)
    n_before = rec['before'][3]
    n_after = len(rec['after'][2])
    violated = rec['before'][1] == 1.0 and n_after == n_before and rec['after'][1] != 0
    if violated:
        print('[A] VIOLATION: exit asked for, no order submitted')
        print(f'    step 3: price={rec["before"][0]}, position qty={rec["before"][1]}, pnl={rec["before"][2]} -> liquidate()')
        print(f'    orders after the step: {rec["after"][2]}')
        print(f'    no exit order of (1, 110) was submitted; position still open with qty={rec["after"][1]} '
              f'(qty at the end of the session: {rec["last_qty"]})')
        print('    clause: "When a strategy asks for an ... exit of quantity q at price p, an order of exactly that '
              'quantity and price is submitted ... within 0.015 percent a market order" (hook: liquidate)')
    return violated


# ---------------------------------------------------------------------------------------------------------
# B. the order type depends on the simulator (stale Strategy.price in the fast simulator), not only on p
#    relative to the current price
# ---------------------------------------------------------------------------------------------------------
def check_b():
    def run(fast):
        out = {}

        class S(Strategy):
            def should_long(self):
                return self.index == 0

            def go_long(self):
                self.buy = (2, 99.0)        # limit below the market (100)

            def should_cancel_entry(self):
                return False

            def on_open_position(self, order):
                # half of the position out at market (0.01% above the fill price: inside the 0.015% band)
                self.take_profit = (1, self.price * 1.0001)

            def on_reduced_position(self, order):
                out['strategy_price'] = self.price
                out['position_current_price'] = self.position.current_price
                out['last_1m_close'] = store.candles.get_current_candle(self.exchange, self.symbol, '1m')[2]
                # the rest out at 98.5
                self.take_profit = (1, 98.5)

            def after(self):
                act = [(o.type, o.side, o.qty, o.price, o.reduce_only) for o in self.orders
                       if o.is_active and o.is_take_profit]
                if act and 'active' not in out:
                    out['active'] = act

        # 5m route. minute 9 (the last minute of the second 5m candle) falls 100 -> 98 and fills the limit at 99
        rows = [(100, 100, 100, 100)] * 9 + [(100, 98, 100, 98)] + [(98, 98, 98.1, 97.9)] * 10
        backtest(S, rows, timeframe='5m', fast=fast)
        return out

    normal, fast = run(False), run(True)
    violated = normal.get('active') != fast.get('active')
    if violated:
        print('[B] VIOLATION: same declaration, same current price, different order type in the fast simulator')
        for name, o in (('normal', normal), ('fast  ', fast)):
            print(f'    {name}: in on_reduced_position Strategy.price={o["strategy_price"]}, '
                  f'position.current_price={o["position_current_price"]}, newest 1m close={o["last_1m_close"]} '
                  f'-> take_profit=(1, 98.5) routed as {o["active"]}')
        print('    a long exit at 98.5 with the price at 98 is on the profit side: LIMIT expected; the fast simulator '
              'routes it against the stale price 99 and submits a STOP')
        print('    clause: "an order ... whose type depends only on p relative to the current price ... an exit on the '
              'profit side a limit order and on the loss side a stop order"')
    return violated


# ---------------------------------------------------------------------------------------------------------
# C. the 0.015 percent boundary: two entry prices exactly 0.015% away from the current price (exact in binary
#    as well as in decimal: 100000 -> 100015 and 99985) fall on different sides of the market band
# ---------------------------------------------------------------------------------------------------------
def check_c():
    def run(p):
        out = {}

        class S(Strategy):
            def should_long(self):
                return self.index == 0

            def go_long(self):
                self.buy = (1, p)

            def should_cancel_entry(self):
                return False

            def after(self):
                if self.index == 0:
                    out['orders'] = [(o.type, o.side, o.qty, o.price) for o in self.orders]

        backtest(S, [(100000, 100000, 100000, 100000)] * 4)
        return out['orders']

    up, down = run(100015), run(99985)
    violated = (up[0][0] == 'MARKET') != (down[0][0] == 'MARKET')
    if violated:
        print('[C] VIOLATION (boundary): current price 100000, |p - price| / price == 0.015% exactly in both cases')
        print(f'    buy=(1, 100015) -> {up}')
        print(f'    buy=(1,  99985) -> {down}')
        print('    whichever way "within 0.015 percent" treats the boundary, one of the two is routed wrongly')
    return violated


if __name__ == '__main__':
    results = [check_a(), check_b(), check_c()]
    if any(results):
        print(f'violations reproduced: A={results[0]} B={results[1]} C={results[2]}')
        sys.exit(1)
    print('no violation reproduced')
    sys.exit(0)
