"""
Audit of property C13 (indicator series are causal: value i depends only on candles 0..i).

Run:  cd /tmp/wta_C13 && /venv/bin/python audit_C13.py
Exit code 1 and an explanation per finding when a violation is observed, exit 0 otherwise.

rma / dx / er (already known) and minmax (exempt) are not used here.
"""
import sys
import warnings

warnings.filterwarnings('ignore')
import numpy as np
import jesse.indicators as ta


def candles(n, seed=0, scale=100.0):
    r = np.random.RandomState(seed)
    c = scale * np.exp(np.cumsum(r.randn(n) * 0.01))
    o = np.roll(c, 1)
    o[0] = c[0]
    h = np.maximum(o, c) * (1 + np.abs(r.randn(n)) * 0.002)
    l = np.minimum(o, c) * (1 - np.abs(r.randn(n)) * 0.002)
    v = np.abs(r.randn(n)) * 100 + 10
    ts = 1609459200000 + np.arange(n) * 60000
    return np.column_stack([ts, o, c, h, l, v]).astype(float)


def same(a, b):
    a = np.asarray(a, dtype=float)
    b = np.asarray(b, dtype=float)
    if a.shape != b.shape:
        return False
    return bool(np.all(np.isclose(a, b, rtol=1e-9, atol=1e-12, equal_nan=True)))


findings = []


def report(tag, msg):
    findings.append(tag)
    print(f'[{tag}] {msg}')


# ---------------------------------------------------------------------------------------------
# F1  alligator: the first value of every line is seeded with the mean of the first 13 / 8 / 5
#     source values, i.e. jaw[8..12] use candles up to 12, teeth[5..7] candles up to 7,
#     lips[3..4] candles up to 4.
#     Two inputs that agree on candles 0..11 / 0..6 / 0..3 must (by the property) agree on the
#     first 12 / 7 / 4 values of the series (both have to equal the series of the common prefix).
# ---------------------------------------------------------------------------------------------
A = candles(60)
for field, pos, changed in (('jaw', 8, 12), ('teeth', 5, 7), ('lips', 3, 4)):
    B = A.copy()
    B[changed, 1:5] *= 1.5  # only candle `changed` (> pos) differs
    a = getattr(ta.alligator(A, sequential=True), field)
    b = getattr(ta.alligator(B, sequential=True), field)
    if not same(a[:changed], b[:changed]):
        report('F1-alligator',
               f'alligator.{field}[{pos}] = {a[pos]:.6f} becomes {b[pos]:.6f} when only candle {changed} is changed '
               f'(value {pos} depends on candle {changed})')

# ---------------------------------------------------------------------------------------------
# F2  sar: value 0 is chosen by comparing high[1] with high[0]; and a 1-candle prefix returns a
#     scalar (low[0]) although sequential=True.
# ---------------------------------------------------------------------------------------------
A = candles(50, seed=3)
B = A.copy()
# make candle 1's high cross candle 0's high in the other direction, candle 0 untouched
if A[1, 3] > A[0, 3]:
    B[1, 3] = A[0, 3] * 0.999
    B[1, 1] = B[1, 2] = min(B[1, 3], A[1, 2])
else:
    B[1, 3] = A[0, 3] * 1.001
a = ta.sar(A, sequential=True)
b = ta.sar(B, sequential=True)
if not same(a[:1], b[:1]):
    report('F2-sar', f'sar[0] = {a[0]:.6f} becomes {b[0]:.6f} when only candle 1 is changed (value 0 depends on candle 1)')
D = A if A[1, 3] <= A[0, 3] else B  # the input whose full series starts with high[0]
p1 = ta.sar(D[:1], sequential=True)
f1 = ta.sar(D, sequential=True)
if np.ndim(p1) == 0 or not same(np.atleast_1d(p1), f1[:1]):
    report('F2-sar', f'sar(prefix of 1 candle, sequential=True) = {p1!r} (low[0], not even a series) '
                     f'but full series starts with {f1[0]:.6f} (high[0])')

# ---------------------------------------------------------------------------------------------
# F3  damiani_volatmeter with vis_std > sed_std (non-default parameters): anti[i] for
#     sed_std <= i < vis_std is read through a NEGATIVE index (std_vis[i - vis_std]) and thus
#     from the END of the series.  And with sed_atr > sed_std the local atr() writes the mean TR
#     into the LAST element when there are fewer candles than the period.
# ---------------------------------------------------------------------------------------------
A = candles(200, seed=1)
kw = dict(vis_atr=13, vis_std=20, sed_atr=40, sed_std=10)
full = ta.damiani_volatmeter(A, sequential=True, **kw)
pre = ta.damiani_volatmeter(A[:150], sequential=True, **kw)
if not same(full.anti[:150], pre.anti):
    i = int(np.argmax(~np.isclose(full.anti[:150], pre.anti, equal_nan=True)))
    report('F3-damiani', f'damiani_volatmeter({kw}).anti[{i}]: 150-candle prefix gives {pre.anti[i]:.6f}, '
                         f'200-candle series gives {full.anti[i]:.6f} (negative index wraps to the end of the series)')
kw = dict(vis_atr=13, vis_std=20, sed_atr=40, sed_std=25)
full = ta.damiani_volatmeter(A, sequential=True, **kw)
pre = ta.damiani_volatmeter(A[:26], sequential=True, **kw)
if not same(full.vol[:26], pre.vol):
    i = int(np.argmax(~np.isclose(full.vol[:26], pre.vol, equal_nan=True)))
    report('F3-damiani', f'damiani_volatmeter({kw}).vol[{i}]: 26-candle prefix gives {pre.vol[i]}, '
                         f'200-candle series gives {full.vol[i]} (atr fallback writes mean(TR) into the last element)')

# ---------------------------------------------------------------------------------------------
# F4  stoch / stochf / kdj with a smoothing matype that strips NaNs and left-pads
#     (16 gauss, 28 hwma, 33 maaq): a LATER flat stretch (high == low for >= fastk_period
#     candles -> 0/0 = NaN in the raw %K) shifts the WHOLE series to the right.
#     Candles are perfectly legitimate: 100 random, 30 flat (price stands still), 70 random.
# ---------------------------------------------------------------------------------------------
A = candles(200, seed=2)
A[100:130, 1:5] = A[99, 2]
for name, kwname in (('stoch', 'slowk_matype'), ('stochf', 'fastd_matype'), ('kdj', 'slowk_matype')):
    for mt in (16, 28, 33):
        f = getattr(ta, name)
        full = f(A, sequential=True, **{kwname: mt})
        pre = f(A[:100], sequential=True, **{kwname: mt})
        fld = 'd' if name == 'stochf' else 'k'
        a = getattr(full, fld)[:100]
        b = getattr(pre, fld)
        if not same(a, b):
            i = int(np.argmax(~np.isclose(a, b, equal_nan=True)))
            report('F4-stoch-ma', f'{name}({kwname}={mt}).{fld}[{i}]: 100-candle prefix gives {b[i]}, full 200-candle series '
                                  f'(flat stretch at 100..129) gives {a[i]}; {int((~np.isclose(a, b, equal_nan=True)).sum())} of 100 values differ')

# ---------------------------------------------------------------------------------------------
# F5  squeeze_momentum: momentum_signal has N-1 entries and entry i compares momentum[i+1] with
#     momentum[i], i.e. value i depends on candle i+1.
# ---------------------------------------------------------------------------------------------
A = candles(120, seed=4)
full = ta.squeeze_momentum(A, sequential=True)
hit = None
for j in range(60, 119):
    B = A.copy()
    B[j + 1:, 1:5] *= 1.2  # candles 0..j untouched
    s = ta.squeeze_momentum(B, sequential=True).momentum_signal
    if list(s[:j + 1]) != list(full.momentum_signal[:j + 1]):
        hit = (j, full.momentum_signal[j], s[j])
        break
if hit or len(full.momentum_signal) != len(A):
    report('F5-squeeze_momentum', f'momentum_signal has {len(full.momentum_signal)} entries for {len(A)} candles; '
                                  f'entry {hit[0] if hit else "?"} changes from {hit[1] if hit else "?"} to {hit[2] if hit else "?"} '
                                  f'when only candles after it are changed (entry i describes candle i+1)')

# ---------------------------------------------------------------------------------------------
# F6  mfi with fewer candles than the period: np.convolve(mode='valid') swaps its operands and the
#     series gets LONGER than the input, with finite junk beyond the input length.
# ---------------------------------------------------------------------------------------------
A = candles(100, seed=5)
pre = ta.mfi(A[:12], period=14, sequential=True)
full = ta.mfi(A, period=14, sequential=True)
if len(pre) != 12:
    report('F6-mfi', f'mfi(12 candles, period=14, sequential=True) has {len(pre)} entries, entries 13.. = {pre[13:]} '
                     f'(full series has {full[13:16]} there); non-sequential value = {ta.mfi(A[:12], period=14)} instead of nan')

if findings:
    print('\nVIOLATIONS of C13:', sorted(set(findings)))
    sys.exit(1)
print('no violation observed')
sys.exit(0)
