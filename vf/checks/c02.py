"""C02 - resting orders fill exactly when and where the price reaches them (Engine A).

Every candle word over the shape alphabet (after a flat lead-in) x every program of the menu x {futures, spot}
x {normal, fast with 3m chunks} is run through the real research.backtest; the oracle (vf/fills.py:c02) is a pure
function of the trace and the input candles.
"""
from .. import core, session as S, fills, progs
from ..core import Violation

ID = 'C02'


def build_case(word, prog, kind, fast, emb, lead=2, tail=1, prog2=None, chunk=3):
    base, tick, unit = emb
    w = [progs.SHAPES['FLAT']] * lead + progs.shapes(word) + [progs.SHAPES['FLAT']] * tail
    tf = ('%dm' % chunk) if fast else '1m'
    if fast:
        while len(w) % chunk:
            w.append(progs.SHAPES['FLAT'])
    rows = S.make_candles(w, base, tick)
    cfg = {'type': kind, 'fee': 0.001 if kind == 'futures' else 0.0, 'leverage': 2, 'balance': 100 * base * unit * (3 if prog2 else 1)}
    case = {'cfg': cfg, 'routes': [{'symbol': 'BTC-USDT', 'timeframe': tf, 'spec': prog}], 'candles': {'BTC-USDT': rows.tolist()},
            'fast': fast, 'observe': 0}
    if prog2 is not None:
        # second symbol on the mirrored word, twice the price level: every order belongs to exactly one symbol's candles
        mw = [(-g, -d, wd, wu) for (g, d, wu, wd) in w]
        case['routes'].append({'symbol': 'ETH-USDT', 'timeframe': tf, 'spec': prog2})
        case['candles']['ETH-USDT'] = S.make_candles(mw, 2 * base, tick).tolist()
    return case


def _run(args):
    word, pname, prog, kind, fast, emb = args[:6]
    p2name = args[6] if len(args) > 6 else None
    chunk = args[7] if len(args) > 7 else 3
    prog2 = (progs.route_follower(emb[1], emb[2])[1] if p2name == 'route-follower' else dict(progs.programs(emb[1], emb[2], kind))[p2name]) if p2name else None
    case = build_case(word, prog, kind, fast, emb, prog2=prog2, chunk=chunk)
    r = S.run_session(case)
    out = {'viols': [], 'nontrivial': False, 'stats': {}}
    ident = {'word': list(word), 'program': pname, 'kind': kind, 'fast': fast, 'embedding': list(emb), 'program2': p2name, 'chunk': chunk}
    if r['error']:
        out['viols'].append(Violation('unexpected-exception', {'exc': r['error'][0], 'sim': 'fast' if fast else 'normal'}, ident,
                                      '%s: %s' % (r['error'][0], r['error'][1])).to_json())
        return out
    probs, stats = fills.c02(r['trace'], case, r['end'])
    p5, s5 = fills.c05(r['trace'], r['end'])
    out['stats'] = dict(stats, **s5)
    out['nontrivial'] = stats['resting_filled'] > 0 and stats['resting_survived_a_phase'] > 0
    if p2name == 'route-follower':
        probs = [(c, dict(sg, cross_route_reaction=True), m) for c, sg, m in probs]
    for clause, sig, msg in probs:
        out['viols'].append(Violation(clause, sig, ident, msg).to_json())
    for clause, sig, msg in p5:
        out['viols'].append(Violation('C05:' + clause, dict(sig, via='C02-sessions'), ident, msg).to_json())
    return out


def cases(ctx):
    emb = ctx.embedding
    sigma, n = (progs.SIGMA8, 4) if ctx.quick else (progs.SIGMA8, 5)
    for kind in ('futures', 'spot'):
        P = progs.programs(emb[1], emb[2], kind)
        for fast in (False, True):
            for pname, prog in P:
                for w in progs.words(sigma, n):
                    if ctx.quick and 'FLAT' in w and not (fast and kind == 'futures' and 'DOJI' not in w):
                        continue        # quick: words with a flat minute only where they matter most (intra-chunk gaps of the fast simulator)
                    if ctx.quick and 'DOJI' in w and not (not fast and kind == 'futures'):
                        continue        # quick: words with a doji (open == close, wicks on both sides) in the candle-by-candle futures sessions
                    yield (w, pname, prog, kind, fast, emb)
    # two symbols sharing one wallet (second one on the mirrored word), and a 5-minute fast chunk
    sigma = progs.SIGMA7
    P = progs.programs(emb[1], emb[2], 'futures')
    for fast in (False, True):
        for i, (pname, prog) in enumerate(P):
            p2 = P[(i + 4) % len(P)][0]
            for w in progs.words(sigma, n - 1):
                yield (w, pname, prog, 'futures', fast, emb, p2, 3)
    # the second route reacts to the first route's fills (on_route_open_position places its stop)
    for fast in (False, True):
        for pname, prog in P[:4]:
            for w in progs.words(sigma, n - 1):
                yield (w, pname, prog, 'futures', fast, emb, 'route-follower', 3)
    for i, (pname, prog) in enumerate(P):
        for w in progs.words(sigma, n - 1 if ctx.quick else n):
            yield (w, pname, prog, 'futures', True, emb, None, 5)
    # micro-priced and very expensive symbols (reduced word length)
    for sc in core.SCALES:
        for pname, prog in progs.programs(sc[1], sc[2], 'futures'):
            for fast in (False, True):
                for w in progs.words(sigma, n - 2 if ctx.quick else n - 1):
                    yield (w, pname, prog, 'futures', fast, sc)


def run(ctx):
    cov = ctx.coverage
    allc = list(cases(ctx))
    res = core.pmap(_run, allc, chunksize=64)
    sigs = set()
    for c, r in zip(allc, res):
        cov['transitions'] += len(c[0]) + 3
        if r['nontrivial']:
            cov['distinct_nontrivial'] += 1
        for k, v in r['stats'].items():
            ctx.count(k, v)
        for v in r['viols']:
            v = Violation.from_json(v)
            ctx.count('violation:' + v.clause)
            if v.sigkey() in sigs:
                ctx.total_violations += 1
                continue
            sigs.add(v.sigkey())
            ctx.add(v)
    cov['states'] = len(allc)
    cov['traces_validated_against_impl'] = len(allc)
    cov['evaluations'] = len(allc)
    cov['rule'] = ('all candle words x programs x {futures, spot} x {normal, fast}; a session is non-trivial when at least one resting order was filled '
                   'AND at least one resting order survived a whole matching phase (both clauses of the property were exercised)')
    sigma, n = (progs.SIGMA8, 4) if ctx.quick else (progs.SIGMA8, 5)
    cov['bounds'] = {'alphabet': {k: progs.SHAPES[k] for k in sigma}, 'word_length': n, 'lead_in': 2,
                     'programs': [p for p, _ in progs.programs(1, 1, 'futures')], 'simulators': ['normal 1m', 'fast 3m chunks', 'fast 5m chunks'], 'two_symbol_sessions': 'every program paired with another one on the mirrored word (word length n-1)'}
    ctx.sample({'word': list(allc[0][0]), 'program': allc[0][1], 'kind': allc[0][3], 'fast': allc[0][4]})
    ctx.sample({'word': list(allc[-1][0]), 'program': allc[-1][1], 'kind': allc[-1][3], 'fast': allc[-1][4]})
    ctx.assumptions += ['orders created while a minute is being matched are exempt from the missed-fill clause for that minute only (C08 covers them)',
                        'cross margin: no liquidation orders in these sessions', 'spot sessions use fee 0 so that exit ladders equal the position size']


def replay(case, ctx):
    emb0 = tuple(case.get('embedding') or ctx.embedding)
    P = dict(progs.programs(emb0[1], emb0[2], case['kind']))
    r = _run((tuple(case['word']), case['program'], P[case['program']], case['kind'], case['fast'], tuple(case.get('embedding') or ctx.embedding), case.get('program2'), case.get('chunk', 3)))
    return [Violation.from_json(v) for v in r['viols']]
