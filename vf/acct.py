"""Real jesse account sessions built the way the simulator builds them, outside pytest, for Engine B."""
import numpy as np

import jesse.helpers as jh
from jesse.config import config
from jesse.routes import router
from jesse.store import store
from jesse.strategies import Strategy
from jesse.modes import backtest_mode
from jesse.exchanges import Sandbox
import jesse.services.selectors as selectors

TS = 1609459200000
EXCHANGE = 'Sandbox'


class HarnessStrategy(Strategy):
    """A strategy that decides nothing. The real position -> strategy event path stays in place
    (hooks fire, closing a position cancels everything resting); only the declarative order
    reconciliation (C10's subject) is switched off, because the driver places orders through the
    exchange API and declares nothing."""
    hook_log = None

    def should_long(self):
        return False

    def go_long(self):
        pass

    def _detect_and_handle_entry_and_exit_modifications(self):
        pass

    def on_open_position(self, order):
        self._log('open')

    def on_close_position(self, order):
        self._log('close')

    def on_increased_position(self, order):
        self._log('increase')

    def on_reduced_position(self, order):
        self._log('reduce')

    def _log(self, what):
        if HarnessStrategy.hook_log is not None:
            HarnessStrategy.hook_log.append((self.symbol, what, self.position.qty))


def fresh(kind, fee, balance, leverage=1, mode='cross', symbols=('BTC-USDT',), price=100.0):
    """Returns (api, exchange, {symbol: position})."""
    jh.CACHED_CONFIG.clear()
    config['app']['trading_mode'] = 'backtest'
    ex = {'fee': fee, 'type': kind, 'balance': balance}
    if kind == 'futures':
        ex['futures_leverage'] = leverage
        ex['futures_leverage_mode'] = mode
    config['env']['exchanges'][EXCHANGE] = ex
    router.initiate([{'exchange': EXCHANGE, 'symbol': s, 'timeframe': '1m', 'strategy': HarnessStrategy} for s in symbols], [])
    store.candles.init_storage(50)
    for s in symbols:
        store.candles.add_candle(np.array([TS - 60000, price, price, price, price, 1.0]), EXCHANGE, s, '1m',
                                 with_execution=False, with_generation=False)
    store.app.time = TS
    HarnessStrategy.hook_log = []
    backtest_mode._prepare_routes()
    pos = {}
    for s in symbols:
        p = selectors.get_position(EXCHANGE, s)
        p.current_price = price
        pos[s] = p
    return Sandbox(EXCHANGE), selectors.get_exchange(EXCHANGE), pos


def physical(dna):
    """index, capacity and raw rows of a DynamicNumpyArray (margin tables)."""
    return (dna.index, dna.array.shape[0], tuple(map(tuple, dna.array[:max(dna.index + 1, 0)].tolist())))


def _scalars(obj):
    """every plain scalar attribute of a jesse object (whatever a method may read, also attributes a later version adds), except
    identifiers and clock readings"""
    return tuple(sorted((a, repr(v)) for a, v in vars(obj).items()
                        if isinstance(v, (int, float, str, bool, type(None))) and a not in ('id', 'opened_at', 'closed_at', 'created_at', 'session_id')))


def canon_common(exchange, positions, orders):
    """Fields every account operation reads; floats enter through repr (never rounded)."""
    k = [tuple(sorted((a, repr(v)) for a, v in exchange.assets.items())),
         tuple(sorted((a, repr(v)) for a, v in exchange.available_assets.items()))]
    for s in sorted(positions):
        p = positions[s]
        k.append((s, repr(p.qty), repr(p.entry_price), repr(p.current_price), repr(p.previous_qty)))
        k.append(_scalars(p))
    k.append(_scalars(exchange))
    k.append(tuple((o.type, o.side, repr(o.qty), repr(o.price), bool(o.reduce_only), o.status) for o in orders))
    k.append(tuple(id(o) in {id(x) for x in store.orders.to_execute} for o in orders))
    for key in sorted(store.orders.storage):
        k.append((key, len(store.orders.storage[key]), len(store.orders.active_storage[key])))
    k.append(len(store.completed_trades.trades))
    for key in sorted(store.completed_trades.tempt_trades):
        t = store.completed_trades.tempt_trades[key]
        k.append((key, t.opened_at is not None, physical(t.buy_orders), physical(t.sell_orders), len(t.orders)))
    return k
