"""C19 - optimizer DNA decoding and hyperparameter precedence.

Engine C: every letter of the optimizer alphabet at every position against every declaration (in range,
typed, own-gene only, monotone, ends map to min/max, linear map).  Engine A (tiny sessions): every
combination of {declared defaults, dna(), explicit hyperparameters=} x {normal, fast} x {one route, two routes
in both orders} through the real research.backtest; the strategies record self.hp.
"""
import itertools

import numpy as np

from .. import core
from ..core import Violation

ID = 'C19'

DECLS = [(0, 10, int), (-5, 5, int), (1, 2, int), (0, 1000, int), (3, 3, int), (0.1, 0.9, float), (-1.5, 2.5, float), (10, 20, float), (-7, -2, int), (0.01, 1.0, float),
         (0.1, 1.0, float), (0.0, 0.9, float), (0.001, 0.01, float), (-3.0, 0.1, float), (0.2, 0.9, float)]


def charset():
    import inspect
    from jesse.modes.optimize_mode.Optimize import Optimizer
    return inspect.signature(Optimizer.__init__).parameters['charset'].default


def _decode_all(_):
    import jesse.helpers as jh
    cs = charset()
    out = {'n': 0, 'viols': [], 'charset_len': len(cs)}
    seen = set()

    def bad(clause, sig, case, msg):
        k = (clause, repr(sorted(sig.items())))
        if k in seen:
            return
        seen.add(k)
        out['viols'].append(Violation(clause, sig, case, msg).to_json())

    if sorted(cs) != list(cs) or len(set(cs)) != len(cs):
        bad('alphabet', {}, {'charset': cs}, 'optimizer alphabet is not strictly increasing')
    for (mn, mx, tp) in DECLS:
        decl = [{'name': 'p0', 'type': tp, 'min': mn, 'max': mx, 'default': mn},
                {'name': 'p1', 'type': float, 'min': -1.0, 'max': 1.0, 'default': 0.0},
                {'name': 'p2', 'type': tp, 'min': mn, 'max': mx, 'default': mn}]
        case0 = {'decl': [mn, mx, tp.__name__]}
        for pos in (0, 2):
            prev = None
            for gi, g in enumerate(cs):
                vals = set()
                others = cs if pos == 0 else cs[::16]
                for h in others:           # the other genes must not matter (all 80x80 pairs at position 0)
                    dna = (g + h + cs[3]) if pos == 0 else (cs[5] + h + g)
                    out['n'] += 1
                    try:
                        hp = jh.dna_to_hp(decl, dna)
                    except Exception as e:
                        bad('decode-raises', {'exc': type(e).__name__}, dict(case0, dna=dna), 'dna_to_hp raised %r' % (e,))
                        continue
                    vals.add((type(hp['p%d' % pos]).__name__, hp['p%d' % pos]))
                if len(vals) != 1:
                    bad('depends-on-other-gene', {'pos': pos}, dict(case0, gene=g, pos=pos), 'value at position %d varies with the other genes: %s' % (pos, sorted(vals)[:4]))
                    continue
                tname, v = next(iter(vals))
                case = dict(case0, gene=g, pos=pos)
                if tp is int and tname != 'int':
                    bad('type', {'declared': 'int'}, case, 'int parameter decoded to %s %r' % (tname, v))
                if tp is float and tname not in ('float', 'int'):
                    bad('type', {'declared': 'float'}, case, 'float parameter decoded to %s %r' % (tname, v))
                if not (mn <= v <= mx):          # no tolerance: the strategy must never see a value outside the range it declared
                    bad('out-of-range', {}, case, 'gene %r decodes to %r outside [%r, %r]' % (g, v, mn, mx))
                if prev is not None and v < prev:
                    bad('not-monotone', {}, case, 'gene %r decodes to %r < %r of the previous letter' % (g, v, prev))
                prev = v
                lin = mn + gi * (mx - mn) / (len(cs) - 1)
                if tp is float and not core.close(v, lin, rel=1e-9, abs_=1e-12):
                    bad('not-linear', {'type': 'float'}, case, 'gene %r decodes to %r, linear map gives %r' % (g, v, lin))
                if tp is int and abs(v - lin) > 0.5 + 1e-9:
                    bad('not-linear', {'type': 'int'}, case, 'gene %r decodes to %r, linear map gives %r' % (g, v, lin))
                if gi == 0 and v != mn:
                    bad('first-letter-not-min', {}, case, 'first letter decodes to %r, min is %r' % (v, mn))
                if gi == len(cs) - 1 and v != mx:
                    bad('last-letter-not-max', {}, case, 'last letter decodes to %r, max is %r' % (v, mx))
        # the neighbour in the middle (float -1..1): whatever stands left and right of it (a degenerate range included),
        # its value is the linear image of ITS gene
        for gi, g in enumerate(cs):
            for h in cs[::16]:
                dna = h + g + cs[7]
                out['n'] += 1
                try:
                    v = jh.dna_to_hp(decl, dna)['p1']
                except Exception as e:
                    bad('decode-raises', {'exc': type(e).__name__}, dict(case0, dna=dna), 'dna_to_hp raised %r' % (e,))
                    continue
                lin = -1.0 + gi * 2.0 / (len(cs) - 1)
                if not core.close(v, lin, rel=1e-9, abs_=1e-12):
                    bad('neighbour-of-declaration', {'degenerate_neighbour': mn == mx}, dict(case0, gene=g, pos=1, dna=dna),
                        'middle parameter (float -1..1) with gene %r between two %r..%r declarations decodes to %r, linear map gives %r' % (g, mn, mx, v, lin))
    return out


# ------------------------------------------------------------------ precedence through real backtests
RECORD = []
TS = 1609459200000


def _mk_strategy(tag, has_defaults, dna):
    from jesse.strategies import Strategy

    class S(Strategy):
        def should_long(self):
            return False

        def go_long(self):
            pass

        def before(self):
            if self.index == 0:
                RECORD.append((tag, None if self.hp is None else dict(self.hp)))

    if has_defaults or dna:
        # a dna() needs a declaration to be decoded against
        def hyperparameters(self):
            return [{'name': 'a', 'type': int, 'min': 0, 'max': 79, 'default': 7 if tag == 'r0' else 11},
                    {'name': 'b', 'type': float, 'min': 0.0, 'max': 7.9, 'default': 0.5 if tag == 'r0' else 0.25}]
        S.hyperparameters = hyperparameters
    if dna and not isinstance(dna, str):
        # a dna() that chooses by the route it runs on: [for BTC-USDT, for ETH-USDT, for anything else]
        S.dna = lambda self: {'BTC-USDT': dna[0], 'ETH-USDT': dna[1]}.get(self.symbol, dna[2])
    elif dna:
        S.dna = lambda self: dna
    S.__name__ = 'S_' + tag
    return S


def _expected(has_defaults, dna, explicit, tag):
    import jesse.helpers as jh
    if dna and not isinstance(dna, str):
        dna = dna[int(tag[1:])]
    if explicit is not None:
        return explicit
    decl = [{'name': 'a', 'type': int, 'min': 0, 'max': 79, 'default': 7 if tag == 'r0' else 11},
            {'name': 'b', 'type': float, 'min': 0.0, 'max': 7.9, 'default': 0.5 if tag == 'r0' else 0.25}]
    if dna:
        cs = charset()
        return {'a': cs.index(dna[0]), 'b': cs.index(dna[1]) * 0.1}
    if has_defaults:
        return {d['name']: d['default'] for d in decl}
    return None


def _session(case):
    import jesse.helpers as jh
    from jesse import research
    routes_spec, explicit, fast = case['routes'], case['explicit'], case['fast']
    jh.CACHED_CONFIG.clear()
    del RECORD[:]
    syms = ['BTC-USDT', 'ETH-USDT']
    routes = []
    candles = {}
    for i, (hd, dna) in enumerate(routes_spec):
        tag = 'r%d' % i
        routes.append({'exchange': 'Sandbox', 'strategy': _mk_strategy(tag, hd, dna), 'symbol': syms[i], 'timeframe': '1m'})
        c = np.array([[TS + k * 60000, 100, 100, 100, 100, 1] for k in range(6)], dtype=float)
        candles['Sandbox-' + syms[i]] = {'exchange': 'Sandbox', 'symbol': syms[i], 'candles': c}
    cfg = {'starting_balance': 10000, 'fee': 0, 'type': 'futures', 'futures_leverage': 2, 'futures_leverage_mode': 'cross',
           'exchange': 'Sandbox', 'warm_up_candles': 0}
    viols = []
    try:
        research.backtest(cfg, routes, [], candles, hyperparameters=explicit, fast_mode=fast)
    except Exception as e:
        return [Violation('backtest-raises', {'exc': type(e).__name__}, case, 'research.backtest raised %r' % (e,)).to_json()]
    got = dict(RECORD)
    for i, (hd, dna) in enumerate(routes_spec):
        tag = 'r%d' % i
        want = _expected(hd, dna, explicit, tag)
        g = got.get(tag, 'missing')
        ok = (g == want) if (want is None or g is None or g == 'missing') else (
            set(g) == set(want) and all(core.close(g[k], want[k], rel=1e-9) and (type(g[k]) is int) == (type(want[k]) is int) for k in want))
        if not ok:
            src = 'explicit' if explicit is not None else 'dna' if dna else 'defaults' if hd else 'none'
            viols.append(Violation('precedence', {'route_index': i, 'expected_source': src, 'routes': len(routes_spec)}, case,
                                   'route %d (%s) sees hp=%r, expected %r from %s' % (i, syms[i], g, want, src)).to_json())
    return viols


def run(ctx):
    cov = ctx.coverage
    r = _decode_all(None)
    cov['transitions'] += r['n']
    ctx.count('decode', r['n'])
    ctx.extend(Violation.from_json(v) for v in r['viols'])
    cs = charset()
    # precedence sessions
    # genes at both ends of the alphabet: the first letter decodes to 0 / 0.0 here, values a truthiness test would lose
    kinds = [(False, ''), (True, ''), (False, cs[3] + cs[20]), (True, cs[10] + cs[79]), (True, cs[0] + cs[0])]
    kinds2 = [(False, ''), (True, ''), (True, cs[40] + cs[1]), (True, cs[0] + cs[79])]
    cases = []
    for fast in (False, True):
        for explicit in (None, {'a': 42, 'b': 4.2}, {'a': 0, 'b': 0.0}):
            for k in kinds:
                cases.append({'routes': [list(k)], 'explicit': explicit, 'fast': fast})
            for k in kinds:
                for k2 in kinds2:
                    cases.append({'routes': [list(k), list(k2)], 'explicit': explicit, 'fast': fast})
                    cases.append({'routes': [list(k2), list(k)], 'explicit': explicit, 'fast': fast})
    # every letter of the alphabet through the dna() path of a real backtest, at either position
    for g in cs:
        cases.append({'routes': [[True, g + cs[7]]], 'explicit': None, 'fast': False})
        cases.append({'routes': [[True, cs[5] + g]], 'explicit': None, 'fast': True})
    # a dna() that depends on the route (symbol): the genes decoded are those dna() returns on the configured route
    bysym = [cs[12] + cs[34], cs[56] + cs[78], cs[49] + cs[9]]
    for fast in (False, True):
        cases.append({'routes': [[True, bysym]], 'explicit': None, 'fast': fast})
        cases.append({'routes': [[True, bysym], [True, bysym]], 'explicit': None, 'fast': fast})
        cases.append({'routes': [[True, cs[1] + cs[2]], [True, bysym]], 'explicit': None, 'fast': fast})
        cases.append({'routes': [[True, bysym], [True, bysym]], 'explicit': {'a': 42, 'b': 4.2}, 'fast': fast})
    res = core.pmap(_session, cases, chunksize=4)
    for c, vs in zip(cases, res):
        ctx.extend(Violation.from_json(v) for v in vs)
    cov['transitions'] += len(cases)
    ctx.count('precedence-sessions', len(cases))
    cov['states'] = cov['transitions']
    cov['traces_validated_against_impl'] = cov['transitions']
    cov['evaluations'] = cov['transitions']
    cov['distinct_nontrivial'] = len(DECLS) * 2 * r['charset_len'] + len(cases)
    cov['rule'] = ('decode: every letter x position x declaration (all 80x80 gene pairs at position 0); distinct non-trivial = (declaration, position, letter) '
                   'triples + precedence sessions; precedence: all combinations of defaults/dna()/explicit x simulator x 1-2 routes in both orders')
    cov['bounds'] = {'alphabet': cs, 'declarations': [[a, b, t.__name__] for a, b, t in DECLS], 'positions': [0, 2], 'sessions': len(cases)}
    ctx.sample({'decl': [0, 10, 'int'], 'dna': cs[0] + cs[79] + cs[3]})
    ctx.sample(cases[-1])
    ctx.assumptions += ['int parameters may differ from the linear map by at most 0.5 (rounding); float parameters must equal it to 1e-9']


def replay(case, ctx):
    if 'routes' in case:
        return [Violation.from_json(v) for v in _session(case)]
    r = _decode_all(None)
    return [Violation.from_json(v) for v in r['viols']]
