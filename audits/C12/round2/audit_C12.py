"""
Audit of property C12 (fast mode reproduces the normal simulation when fills are unambiguous).

Two independent counterexamples, both with a single BTC-USDT route, cross margin (no liquidation possible),
MARKET entries and at most ONE resting order filled in the whole session by the normal simulator:

 A. `self.entry_orders` (documented strategy property, store.orders.get_entry_orders) is pruned of executed
    orders once per MINUTE by the candle-by-candle simulator (store.orders.update_active_orders in the minute
    loop) but only once per CHUNK - and after the strategy ran - by the fast simulator (_execute_routes).
    A 5m strategy that places its take-profit "once no entry order is left" places it one bar later in fast mode.

 B. `self.daily_balances` (store.app.daily_balance) gets its day-N sample at minute 1441 in the normal
    simulator and only after the chunk [1440, 1440+step) - and after the strategy ran - in the fast simulator.
    A 1h strategy that trades "once per new daily sample" enters one hour later in fast mode.

Exit code 1 and an explanation when a violation is observed, 0 otherwise.
"""
import sys
import warnings

warnings.filterwarnings('ignore')

import numpy as np

import jesse.helpers as jh
from jesse.research import backtest
from jesse.store import store
from jesse.strategies import Strategy

T0 = 1609459200000
G = {}


def candles_from_closes(closes):
    arr = np.zeros((len(closes), 6))
    for i, c in enumerate(closes):
        o = closes[i - 1] if i else closes[0]
        arr[i] = [T0 + i * 60_000, o, c, max(o, c), min(o, c), 10.0]
    return arr


class Recorder(Strategy):
    """records every fill (side, type, qty, price, fill time) and keeps a handle on the trades store"""

    def before(self):
        G['trades_state'] = store.completed_trades
        G['app'] = store.app

    def _rec(self, order):
        G.setdefault('exec', []).append(
            (order.side, order.type, round(abs(order.qty), 10), float(order.price), int(order.executed_at)))

    def on_open_position(self, order): self._rec(order)

    def on_close_position(self, order): self._rec(order)

    def on_increased_position(self, order): self._rec(order)

    def on_reduced_position(self, order): self._rec(order)

    def terminate(self):
        G['liquidations'] = store.app.total_liquidations
        G['balance'] = self.balance


# ---------------------------------------------------------------- counterexample A
class TakeProfitOnceEntriesAreDone(Recorder):
    def should_long(self): return self.index == 1

    def should_short(self): return False

    def should_cancel_entry(self): return False

    def go_long(self): self.buy = 1, self.price  # MARKET

    def update_position(self):
        # "all entry orders are done -> place the exit"
        if len(self.entry_orders) == 0 and self.take_profit is None:
            self.take_profit = self.position.qty, self.position.entry_price + 5


# ---------------------------------------------------------------- counterexample B
class OncePerDailySample(Recorder):
    def should_long(self):
        days = len(self.daily_balances)
        if days > self.vars.get('days', 1):
            self.vars['days'] = days
            return True
        return False

    def should_short(self): return False

    def should_cancel_entry(self): return True

    def go_long(self): self.buy = 1, self.price  # MARKET


def run(strategy, candles, timeframe, fast):
    G.clear()
    jh.CACHED_CONFIG.clear()
    config = {'starting_balance': 10_000, 'fee': 0.001, 'type': 'futures', 'futures_leverage': 2,
              'futures_leverage_mode': 'cross', 'exchange': 'Sandbox', 'warm_up_candles': 0}
    routes = [{'exchange': 'Sandbox', 'strategy': strategy, 'symbol': 'BTC-USDT', 'timeframe': timeframe}]
    cs = {'Sandbox-BTC-USDT': {'exchange': 'Sandbox', 'symbol': 'BTC-USDT', 'candles': candles.copy()}}
    res = backtest(config, routes, [], cs, fast_mode=fast)
    trades = [(t.type, t.entry_price, t.exit_price, t.qty, int(t.opened_at), int(t.closed_at), round(t.pnl, 8))
              for t in G['trades_state'].trades]
    return {'executed_orders': list(G.get('exec', [])), 'closed_trades': trades,
            'final_balance': res['metrics'].get('finishing_balance'), 'liquidations': G.get('liquidations')}


def precondition_holds(normal, tf_minutes):
    """normal simulation: no liquidation, never more than one RESTING order filled inside one trading-candle span"""
    spans = [((t - 60_000 - T0) // 60_000) // tf_minutes for (_, typ, _, _, t) in normal['executed_orders'] if
             typ != 'MARKET']
    return normal['liquidations'] == 0 and len(spans) == len(set(spans))


def check(name, strategy, candles, timeframe, tf_minutes):
    normal = run(strategy, candles, timeframe, fast=False)
    fast = run(strategy, candles, timeframe, fast=True)
    pre = precondition_holds(normal, tf_minutes)
    violated = pre and any(normal[k] != fast[k] for k in ('executed_orders', 'closed_trades', 'final_balance'))
    print(f'--- {name} (timeframe {timeframe}, precondition of C12 holds: {pre})')
    for k in ('executed_orders', 'closed_trades', 'final_balance'):
        flag = 'SAME' if normal[k] == fast[k] else 'DIFFERENT'
        print(f'  {k}: {flag}')
        if normal[k] != fast[k]:
            print(f'     normal: {normal[k]}')
            print(f'     fast  : {fast[k]}')
    return violated


def main():
    violations = []

    # A: 5m route. flat at 100 for 16 minutes (entry at the close of bar 1 = minute 10), then +2 per minute:
    # the take-profit at 105 is crossed in minute 18, i.e. between the strategy runs at minute 15 and minute 20.
    closes = [100.0] * 40
    for i in range(16, 40):
        closes[i] = 100 + (i - 15) * 2.0
    if check('A  self.entry_orders keeps executed orders for a whole chunk in fast mode',
             TakeProfitOnceEntriesAreDone, candles_from_closes(closes), '5m', 5):
        violations.append('A')

    # B: 1h route over 27 hours, price rises by 0.01 per minute.
    closes = [100.0 + 0.01 * i for i in range(1440 + 180)]
    if check('B  self.daily_balances gets the new day one chunk later (after the strategy ran) in fast mode',
             OncePerDailySample, candles_from_closes(closes), '1h', 60):
        violations.append('B')

    if violations:
        print(f'\nC12 VIOLATED by counterexample(s) {violations}: with at most one resting fill per trading candle and '
              f'no liquidation in the normal simulation, fast mode does not produce "the same executed orders '
              f'(side, type, quantity, price, fill minute), the same closed trades and the same final balances".')
        sys.exit(1)
    print('\nno violation observed')
    sys.exit(0)


if __name__ == '__main__':
    main()
