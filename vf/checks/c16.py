"""C16 - reported metrics are consistent with the trades and the equity series.

Engine C: metrics.trades() is called on real ClosedTrade objects in a real store for every sequence of up to N trades over the
kinds {win, loss, zero-PnL} x {long, short} (plus all-wins, all-losses, one trade, a 2000-trade list) and for every daily-balance
series built from all words of up to 5 daily returns over {-10%, 0, +5%, +10%}; the identities of the statement and the ratio
definitions (365-day year) are recomputed independently.
Engine A: sessions of 1440*k + r minutes x spot/futures x one route / two routes in both orders x programs that hold a position,
a resting entry order, or nothing across midnight; every sample of the equity series is compared with an independently computed
account equity (wrapper around save_daily_portfolio_balance).
"""
import itertools
import math

import numpy as np

from .. import core, session as S, progs
from ..core import Violation

ID = 'C16'
KINDS = [('long', 'win'), ('long', 'loss'), ('short', 'win'), ('short', 'loss'), ('long', 'zero'), ('short', 'zero')]
RETS = [-0.10, 0.0, 0.05, 0.10]
START = 10000.0


def _mk_trades(seq, fee):
    from jesse.models import ClosedTrade
    out = []
    t0 = S.TS0
    for i, (side, kind) in enumerate(seq):
        t = ClosedTrade()
        t.id = 'T%d' % i
        t.strategy_name = 'S'
        t.symbol = 'BTC-USDT'
        t.exchange = S.EX
        t.type = side
        t.timeframe = '1m'
        t.leverage = 2
        t.opened_at = t0 + i * 3600_000
        t.closed_at = t.opened_at + (i % 3 + 1) * 600_000
        entry = 100.0 + i
        move = {'win': 7.0 + i, 'loss': -(5.0 + 0.5 * i), 'zero': 0.0}[kind]
        exit_ = entry + move if side == 'long' else entry - move
        qty = 1.0 + 0.5 * (i % 2)
        if side == 'long':
            t.buy_orders.append(np.array([qty, entry]))
            t.sell_orders.append(np.array([qty, exit_]))
        else:
            t.sell_orders.append(np.array([qty, entry]))
            t.buy_orders.append(np.array([qty, exit_]))
        out.append(t)
    return out


def _session(fee):
    from .. import acct
    from jesse.store import store
    api, ex, pos = acct.fresh('futures', fee, START, leverage=2, symbols=('BTC-USDT',), price=100.0)
    store.app.starting_time = S.TS0
    return store


def _identities(m, trades, daily, fee, case, bad):
    """m: metrics dict, trades: ClosedTrade list"""
    pnl = [float(t.pnl) for t in trades]
    n = len(pnl)
    wins = [p for p in pnl if p > 0]
    losses = [p for p in pnl if p < 0]
    zeros = n - len(wins) - len(losses)

    def chk(key, want, rel=1e-9, clause=None, nan_ok=False):
        got = m.get(key)
        if want is None or (isinstance(want, float) and math.isnan(want)):
            if got is not None and not (isinstance(got, float) and math.isnan(got)) and not nan_ok:
                bad(clause or 'identity', {'metric': key}, case, '%s = %r, expected no value (NaN)' % (key, got))
            return
        if got is None or (isinstance(got, float) and math.isnan(got)) or not core.close(got, want, rel=rel, abs_=1e-9):
            bad(clause or 'identity', {'metric': key}, case, '%s = %r, the trades/equity series give %r' % (key, got, want))

    chk('total', n)
    chk('total_winning_trades', len(wins))
    chk('total_losing_trades', len(losses))
    if m['total'] != m['total_winning_trades'] + m['total_losing_trades'] + zeros:
        bad('identity', {'metric': 'total'}, case, 'total %r != winners %r + losers %r + break-even %d' % (m['total'], m['total_winning_trades'], m['total_losing_trades'], zeros))
    chk('win_rate', len(wins) / (len(wins) + len(losses)) if (wins or losses) else 0.0)
    chk('net_profit', sum(pnl), rel=1e-9)
    chk('gross_profit', sum(wins))
    chk('gross_loss', sum(losses))
    if not core.close(m['net_profit'], m['gross_profit'] + m['gross_loss'], rel=1e-9, abs_=1e-9):
        bad('identity', {'metric': 'net_profit=gross'}, case, 'net_profit %r != gross_profit %r + gross_loss %r' % (m['net_profit'], m['gross_profit'], m['gross_loss']))
    chk('net_profit_percentage', sum(pnl) / START * 100)
    nl = sum(1 for t in trades if t.type == 'long')
    chk('longs_count', nl)
    chk('shorts_count', n - nl)
    chk('longs_percentage', nl / n * 100)
    chk('shorts_percentage', (n - nl) / n * 100)
    chk('fee', sum(float(t.fee) for t in trades))
    chk('largest_winning_trade', max(wins) if wins else 0.0)
    chk('largest_losing_trade', min(losses) if losses else 0.0)
    aw = sum(wins) / len(wins) if wins else float('nan')
    al = abs(sum(losses) / len(losses)) if losses else float('nan')
    chk('average_win', aw)
    chk('average_loss', al)
    wr = len(wins) / (len(wins) + len(losses)) if (wins or losses) else 0.0
    chk('expectancy', (0 if math.isnan(aw) else aw) * wr - (0 if math.isnan(al) else al) * (1 - wr))
    # streaks: strict runs are a lower bound, runs that also absorb zero-PnL trades an upper bound
    def longest(pred):
        best = cur = 0
        for p in pnl:
            cur = cur + 1 if pred(p) else 0
            best = max(best, cur)
        return best
    for key, strict, loose in (('winning_streak', longest(lambda p: p > 0), longest(lambda p: p >= 0)), ('losing_streak', longest(lambda p: p < 0), longest(lambda p: p <= 0))):
        got = m.get(key)
        if got is None or not (strict <= got <= loose):
            bad('identity', {'metric': key}, case, '%s = %r, the PnL sequence has a longest run of %d (%d counting break-even trades)' % (key, got, strict, loose))
    # current streak: the trailing run, signed
    def trailing(pred):
        k = 0
        for p in reversed(pnl):
            if not pred(p):
                break
            k += 1
        return k
    cs = m.get('current_streak')
    if pnl[-1] > 0:
        lo, hi = trailing(lambda p: p > 0), trailing(lambda p: p >= 0)
    elif pnl[-1] < 0:
        lo, hi = -trailing(lambda p: p <= 0), -trailing(lambda p: p < 0)
    else:
        lo, hi = -trailing(lambda p: p <= 0), trailing(lambda p: p >= 0)
    if cs is None or not (lo <= cs <= hi):
        bad('identity', {'metric': 'current_streak'}, case, 'current_streak = %r, the trailing run of the PnL sequence is between %d and %d' % (cs, lo, hi))
    chk('starting_balance', START)
    # ---- ratios on the daily equity returns
    if len(daily) >= 2:
        r = [daily[i] / daily[i - 1] - 1 for i in range(1, len(daily))]
        eq = [1.0]
        for x in r:
            eq.append(eq[-1] * (1 + x))
        peak, mdd = eq[0], 0.0
        for v in eq:
            peak = max(peak, v)
            mdd = min(mdd, v / peak - 1)
        chk('max_drawdown', mdd * 100, rel=1e-9, clause='ratio-definition')
        if m.get('max_drawdown') is not None and not math.isnan(m['max_drawdown']) and m['max_drawdown'] > 1e-12:
            bad('max-drawdown-positive', {}, case, 'max_drawdown = %r' % m['max_drawdown'])
        years = (len(daily) - 1) / 365.0
        cagr = (eq[-1] ** (1 / years) - 1) if years > 0 else 0.0
        chk('annual_return', cagr * 100, rel=1e-9, clause='ratio-definition')
        mean = sum(r) / len(r)
        if len(r) >= 2:
            sd = math.sqrt(sum((x - mean) ** 2 for x in r) / (len(r) - 1))
            if sd > 0:
                chk('sharpe_ratio', mean / sd * math.sqrt(365), rel=1e-9, clause='ratio-definition')
        dn = math.sqrt(sum(x * x for x in r if x < 0) / len(r))
        if dn > 0:
            chk('sortino_ratio', mean / dn * math.sqrt(365), rel=1e-9, clause='ratio-definition')
        if mdd < 0 and years > 0:
            chk('calmar_ratio', cagr / abs(mdd), rel=1e-9, clause='ratio-definition')
        num = sum(x for x in r if x > 0)
        den = -sum(x for x in r if x < 0)
        if den > 0:
            chk('omega_ratio', num / den, rel=1e-9, clause='ratio-definition')


def _trade_job(items):
    from jesse.services import metrics
    out = {'n': 0, 'viols': []}
    seen = set()
    cur_fee = None
    for seq, fee, daily in items:
        if fee != cur_fee:
            store = _session(fee)
            cur_fee = fee
        case = {'trades': [list(k) for k in seq], 'fee': fee, 'daily': daily}
        out['n'] += 1

        def bad(clause, sig, case_, msg):
            k = (clause, repr(sorted(sig.items())))
            if k in seen:
                return
            seen.add(k)
            out['viols'].append(Violation(clause, sig, case_, msg).to_json())
        trades = _mk_trades(seq, fee)
        store.app.daily_balance = list(daily)
        try:
            m = metrics.trades(trades, list(daily))
        except Exception as e:
            bad('metrics-raise', {'exc': type(e).__name__}, case, 'metrics.trades raised %r' % (e,))
            continue
        _identities(m, trades, daily, fee, case, bad)
    return out


# ------------------------------------------------------------------ Engine A: the equity series

def equity_programs(tick, unit):
    b = {'tick': tick, 'unit': unit}
    return [
        ('hold-across-midnight', dict(b, side='long', enter={'when': {'at': [3]}, 'legs': [[1, 0]]}, on_open={'sl': 'all', 'tp': 'all', 'sl_d': 500, 'tp_d': 500}, cancel_entry=True)),
        ('resting-entry-across-midnight', dict(b, side='long', enter={'when': {'at': [5]}, 'legs': [[1, -400]]}, cancel_entry=False)),
        ('idle', dict(b, side='long', enter={'when': {'at': [10 ** 9]}, 'legs': [[1, 0]]}, cancel_entry=True)),
        ('short-hold-across-midnight', dict(b, side='short', enter={'when': {'at': [7]}, 'legs': [[2, 0]]}, on_open={'sl': 'all', 'tp': 'all', 'sl_d': 500, 'tp_d': 500}, cancel_entry=True)),
    ]


def metrics_reader(tick, unit):
    """round trips all day long; the strategy reads self.metrics every time a trade closes"""
    return ('round-trips-reading-metrics', {'tick': tick, 'unit': unit, 'side': 'long', 'enter': {'when': 'flat', 'legs': [[1, 0]]},
                                            'on_open': {'sl': 'all', 'tp': 'all', 'sl_d': 3, 'tp_d': 3}, 'cancel_entry': True, 'read_metrics': True})


def _equity_session(args):
    kind, nroutes, order, progs_pair, minutes, emb, fast = args[:7]
    tf = args[7] if len(args) > 7 else '1m'
    base, tick, unit = emb
    syms = list(S.SYMS[:nroutes])
    if order == 'reversed':
        syms = syms[::-1]
    word = [progs.SHAPES['U1'] if (i // 7) % 2 == 0 else progs.SHAPES['D1'] for i in range(minutes)]
    candles = {}
    for j, s in enumerate(S.SYMS[:nroutes]):
        w = word if j == 0 else [(-g, -d, wd, wu) for (g, d, wu, wd) in word]
        candles[s] = S.make_candles(w, base * (1 + j) + 1000 * tick, tick).tolist()
    routes = []
    for j, s in enumerate(syms):
        pname, spec = progs_pair[S.SYMS.index(s) % len(progs_pair)]
        routes.append({'symbol': s, 'timeframe': tf, 'spec': spec})
    case = {'cfg': {'type': kind, 'fee': 0.001, 'leverage': 2, 'balance': 50 * (base * 2 + 1000 * tick) * unit}, 'routes': routes, 'candles': candles,
            'fast': fast, 'observe': 0}
    r = S.run_session(case)
    ident = {'equity': True, 'kind': kind, 'routes': [rt['symbol'] for rt in routes], 'programs': [p[0] for p in progs_pair], 'minutes': minutes, 'fast': fast, 'embedding': list(emb), 'tf': tf}
    out = {'viols': [], 'samples': 0, 'nontrivial': False}
    if r['error']:
        out['viols'].append(Violation('unexpected-exception', {'exc': r['error'][0]}, ident, '%s: %s' % r['error'][:2]).to_json())
        return out
    eq = [e for e in r['trace'] if e[0] == 'equity']
    out['samples'] = len(eq)
    want_n = 1 + (minutes - 1) // 1440 + 1
    sig0 = {'kind': kind, 'routes': nroutes}
    if tf != '1m':
        sig0['tf'] = tf
    if len(eq) != want_n:
        out['viols'].append(Violation('equity-sample-count', sig0, ident, '%d equity samples for %d minutes, expected %d (start + one per day + final)' % (len(eq), minutes, want_n)).to_json())
    if eq and not core.close(eq[0][2], case['cfg']['balance'], rel=1e-12):
        out['viols'].append(Violation('equity-start', sig0, ident, 'first sample %r, starting balance %r' % (eq[0][2], case['cfg']['balance'])).to_json())
    for k, e in enumerate(eq):
        if not core.close(e[2], e[3], rel=1e-9, abs_=1e-9):
            which = 'first' if k == 0 else 'final' if k == len(eq) - 1 else 'daily'
            out['viols'].append(Violation('equity-sample', dict(sig0, which=which, order=order), ident,
                                          'sample %d (%s) at minute %d is %r, the account equity (wallet + unrealised PnL / free + reserved quote + base value) is %r'
                                          % (k, which, (e[1] - S.TS0) // 60000, e[2], e[3])).to_json())
            break
        if k not in (0, len(eq) - 1) and abs(e[2] - case['cfg']['balance']) > 1e-9:
            out['nontrivial'] = True
    end = r['end']
    if end and len(end['daily_balance']) != len(eq):
        out['viols'].append(Violation('equity-sample-count', dict(sig0, source='store'), ident,
                                      'store.app.daily_balance has %d entries at the end, %d samples were taken' % (len(end['daily_balance']), len(eq))).to_json())
    if end and eq:
        q = 'USDT'
        final = end['assets'][q]
        if not core.close(eq[-1][2], end['daily_balance'][-1], rel=1e-12) or (kind == 'futures' and not core.close(eq[-1][2], final, rel=1e-9)):
            out['viols'].append(Violation('equity-end', sig0, ident, 'last sample %r, final balance %r' % (eq[-1][2], final)).to_json())
    return out


def run(ctx):
    cov = ctx.coverage
    emb = ctx.embedding
    sigs = set()

    def take(vs):
        for v in vs:
            v = Violation.from_json(v)
            ctx.count('violation:' + v.clause)
            if v.sigkey() not in sigs:
                sigs.add(v.sigkey())
                ctx.add(v)

    nmax = 3 if ctx.quick else 5
    seqs = []
    for n in range(1, nmax + 1):
        seqs += list(itertools.product(KINDS, repeat=n))
    seqs += [tuple([('long', 'win')] * 7), tuple([('short', 'loss')] * 7), tuple([('long', 'zero')] * 3), tuple(KINDS[i % 6] for i in range(400 if ctx.quick else 2000))]
    base_daily = [START, START * 1.05, START * 0.98, START * 1.1]
    from jesse.services import metrics as _warm_import      # pandas & co are imported once, before the workers fork
    items = [(sq, fee, base_daily) for fee in (0.0, 0.001) for sq in seqs]
    # every daily-return word with one fixed trade list
    dwords = []
    for n in range(1, 6):
        dwords += list(itertools.product(RETS, repeat=n))
    one = [(('long', 'win'), ('short', 'loss'))]
    for w in dwords:
        d = [START]
        for x in w:
            d.append(d[-1] * (1 + x))
        items.append((one[0], 0.001, d))
    ntr = 0
    for r in core.pmap(_trade_job, list(core.chunks(items, 24)), chunksize=1):
        ntr += r['n']
        take(r['viols'])
    ctx.count('metrics.trades-calls', ntr)
    cov['transitions'] += ntr
    # equity sessions
    P = equity_programs(emb[1], emb[2])
    ejobs = []
    for kind in ('futures', 'spot'):
        P = [p for p in equity_programs(emb[1], emb[2]) if kind == 'futures' or p[1]['side'] == 'long']
        for k, r in itertools.product((1, 2) if not ctx.quick else (1,), (0, 1, 5)):
            minutes = 1440 * k + r
            for prog in P:
                ejobs.append((kind, 1, 'given', [prog], minutes, emb, False))
            for pa, pb in itertools.permutations(P, 2):
                for order in ('given', 'reversed'):
                    ejobs.append((kind, 2, order, [pa, pb], minutes, emb, False))
        ejobs.append((kind, 2, 'given', [P[0], P[1]], 1445, emb, True))
    # a strategy that reads its running metrics after every closed trade
    for kind in ('futures', 'spot'):
        for fast in (False, True):
            ejobs.append((kind, 1, 'given', [metrics_reader(emb[1], emb[2])], 1445, emb, fast, '1m' if not fast else '5m'))
    # trading timeframes above 1m (the fast simulator then works in chunks, up to several days long), both simulators
    P = equity_programs(emb[1], emb[2])
    for tf, minutes in (('15m', 2 * 1440 + 7), ('4h', 2 * 1440 + 250), ('1D', 3 * 1440 + 10), ('3D', 4 * 1440 + 7)):
        for fast in (False, True):
            ejobs.append(('futures', 1, 'given', [P[0]], minutes, emb, fast, tf))
    res = core.pmap(_equity_session, ejobs, chunksize=1)
    for r in res:
        ctx.count('equity-samples', r['samples'])
        if r['nontrivial']:
            cov['distinct_nontrivial'] += 1
        take(r['viols'])
    cov['transitions'] += len(ejobs)
    cov['distinct_nontrivial'] += ntr
    cov['states'] = cov['transitions']
    cov['traces_validated_against_impl'] = cov['transitions']
    cov['evaluations'] = cov['transitions']
    cov['rule'] = ('all trade-kind sequences up to length %d (+ degenerate lists) x 2 fee rates, all daily-return words up to length 5, and %d equity sessions; non-trivial = every metrics call '
                   '+ equity sessions with a daily sample that differs from the starting balance' % (nmax, len(ejobs)))
    cov['bounds'] = {'trade_kinds': [list(k) for k in KINDS], 'max_trades_enumerated': nmax, 'daily_returns': RETS, 'equity_minutes': sorted({j[4] for j in ejobs})}
    ctx.sample({'trades': [list(k) for k in seqs[7]], 'fee': 0.001})
    ctx.sample({'equity': True, 'kind': ejobs[3][0], 'routes': ejobs[3][1], 'minutes': ejobs[3][4]})
    ctx.assumptions += ['streaks: the strict run length is a lower bound, the run length that absorbs break-even trades an upper bound',
                        'ratios are recomputed from the daily balance series with a 365-day year; the starting balance is the first peak of the drawdown']


def replay(case, ctx):
    if case.get('equity'):
        emb = tuple(case.get('embedding') or ctx.embedding)
        P = dict(equity_programs(emb[1], emb[2]) + [metrics_reader(emb[1], emb[2])])
        pp = [(n, P[n]) for n in case['programs']]
        order = 'given' if case['routes'] == list(S.SYMS[:len(case['routes'])]) else 'reversed'
        r = _equity_session((case['kind'], len(case['routes']), order, pp, case['minutes'], emb, case['fast'], case.get('tf', '1m')))
        return [Violation.from_json(v) for v in r['viols']]
    r = _trade_job([(tuple(tuple(k) for k in case['trades']), case['fee'], case['daily'])])
    return [Violation.from_json(v) for v in r['viols']]
