"""
Audit of property C08 (fills inside one minute follow a single continuous price path).

Run:  cd /tmp/wtb_C08 && /venv/bin/python audit_C08.py
Exit code 1 and an explanation when a violation is observed, 0 otherwise.

All sessions use the NORMAL simulator (fast_mode=False), futures, fee 0, one route BTC-USDT 1m.
The minute under test is always the candle  open=100  low=90  high=120  close=110  (rising),
so the property's price path for it is  100 -> 90 -> 120 -> 110.
"""
import sys
import warnings

warnings.filterwarnings('ignore')

import numpy as np
import jesse.helpers as jh
from jesse import research
from jesse.strategies import Strategy

T0 = 1609459200000


def mk(rows):
    return np.array([[T0 + i * 60_000, o, c, h, l, 10.0] for i, (o, c, h, l) in enumerate(rows)], dtype=float)


def run(strategy, rows, lev=2, mode='cross'):
    jh.CACHED_CONFIG.clear()
    config = {'starting_balance': 10_000, 'fee': 0, 'type': 'futures', 'futures_leverage': lev,
              'futures_leverage_mode': mode, 'exchange': 'Sandbox', 'warm_up_candles': 0}
    routes = [{'exchange': 'Sandbox', 'strategy': strategy, 'symbol': 'BTC-USDT', 'timeframe': '1m'}]
    candles = {'Sandbox-BTC-USDT': {'exchange': 'Sandbox', 'symbol': 'BTC-USDT', 'candles': mk(rows)}}
    return research.backtest(config, routes, [], candles, fast_mode=False)


FLAT = (100, 100, 100, 100)
TEST = (100, 110, 120, 90)  # o, c, h, l  -> path 100 -> 90 -> 120 -> 110
LOG = []
violations = []


# --------------------------------------------------------------------------------------------
# V1. liquidation fill caused by a part of the path that lies BEFORE the fill that opened the position
# --------------------------------------------------------------------------------------------
class V1(Strategy):
    def should_long(self):
        return self.index == 0

    def should_cancel_entry(self):
        return False

    def go_long(self):
        self.buy = 1, 105  # stop-buy above the open: reached on the way up, i.e. AFTER the low of 90

    def on_open_position(self, order):
        LOG.append(('open', float(order.price), float(self.position.liquidation_price)))

    def on_close_position(self, order):
        LOG.append(('close', float(order.price), order.type))


LOG.clear()
run(V1, [FLAT, TEST, (110, 110, 110, 110)], lev=10, mode='isolated')
print('V1 log:', LOG)
closes = [x for x in LOG if x[0] == 'close']
if LOG and LOG[0][0] == 'open' and LOG[0][1] == 105.0 and closes and closes[0][1] < 105.0:
    violations.append(
        f"V1: long opened at 105 on the rising leg (after the low). Remaining path is 105 -> 120 -> 110, "
        f"it never goes below 105, yet the position is closed in the SAME minute by a liquidation order "
        f"filled at {closes[0][1]} (liquidation price {LOG[0][2]} only lies on the part of the path "
        f"before the entry fill: 100 -> 90)."
    )


# --------------------------------------------------------------------------------------------
# V2. two orders tied at one price: the second one is "split at the open" of the later candle, i.e. not
#     split at all -> position.current_price / strategy.price become the FINAL close of the minute and a
#     market order submitted by the hook of that fill is filled at the final close, ahead of the path.
#   a) reaction orders only
#   b) with a take-profit that has been resting since two minutes
# --------------------------------------------------------------------------------------------
class V2a(Strategy):
    def should_long(self):
        return self.index == 0

    def should_cancel_entry(self):
        return False

    def go_long(self):
        self.buy = [(1, 115), (1, 115)]

    def on_open_position(self, order):
        LOG.append(('fill', float(order.price), order.type, 'strategy.price', float(self.price)))

    def on_increased_position(self, order):
        LOG.append(('fill', float(order.price), order.type, 'strategy.price', float(self.price)))
        # "sell one at market now, one more at 118"
        self.take_profit = [(1, self.price), (1, 118)]

    def on_reduced_position(self, order):
        LOG.append(('fill', float(order.price), order.type, 'strategy.price', float(self.price)))

    def on_close_position(self, order):
        LOG.append(('fill', float(order.price), order.type, 'strategy.price', float(self.price)))


LOG.clear()
run(V2a, [FLAT, TEST, (110, 110, 110, 110)])
print('V2a log:')
for x in LOG:
    print('    ', x)
prices = [x[1] for x in LOG]
if prices[:2] == [115.0, 115.0] and len(prices) >= 4 and prices[2] == 110.0 and prices[3] == 118.0:
    violations.append(
        "V2a: fills of the minute are 115, 115, 110(MARKET), 118. After 115 the path is 115 -> 120 -> 110: "
        "110 is only reached at the very end, after 118. The market order created in reaction to the second "
        "fill at 115 is filled at 110 (the candle's final close) while the path is still at 115, and an order "
        "then fills at 118 'after' the path has already been at its end point."
    )


class V2b(Strategy):
    def should_long(self):
        return self.index == 0

    def go_long(self):
        self.buy = [(1, self.price), (1, 115), (1, 115)]
        self.take_profit = 1, 118

    def on_open_position(self, order):
        LOG.append(('fill', float(order.price), order.type, 'strategy.price', float(self.price)))

    def on_increased_position(self, order):
        LOG.append(('fill', float(order.price), order.type, 'strategy.price', float(self.price)))
        if self.increased_count == 3:
            self.liquidate()

    def on_reduced_position(self, order):
        LOG.append(('fill', float(order.price), order.type, 'strategy.price', float(self.price)))

    def on_close_position(self, order):
        LOG.append(('fill', float(order.price), order.type, 'strategy.price', float(self.price)))


LOG.clear()
run(V2b, [FLAT, FLAT, TEST, (110, 110, 110, 110)])
print('V2b log:')
for x in LOG:
    print('    ', x)
prices = [x[1] for x in LOG]
if prices == [100.0, 115.0, 115.0, 110.0]:
    violations.append(
        "V2b: take-profit SELL 1 @118 rests since minute 0. In the tested minute the fills are 115, 115 and then "
        "the whole position is sold at 110 by the market order of liquidate() called in the hook of the second "
        "fill at 115. The path 115 -> 120 -> 110 reaches the resting 118 before it reaches 110, but the order at "
        "118 never fills (cancelled by the close at 110): resting orders do not fill in the order in which the "
        "path reaches their prices."
    )


# --------------------------------------------------------------------------------------------
# V3. exit order created in reaction to a fill, 0.01% BELOW the fill price, on the rising leg: it is turned
#     into a MARKET order that is filled at ITS OWN price - a price the rest of the path never visits.
# --------------------------------------------------------------------------------------------
class V3(Strategy):
    def should_long(self):
        return self.index == 0

    def should_cancel_entry(self):
        return False

    def go_long(self):
        self.buy = 1, 105

    def on_open_position(self, order):
        LOG.append(('fill', float(order.price), order.type, 'partial candle o,c,h,l', self.current_candle[1:5].tolist()))
        self.stop_loss = 1, 104.99

    def on_close_position(self, order):
        LOG.append(('fill', float(order.price), order.type))


LOG.clear()
run(V3, [FLAT, TEST, (110, 110, 110, 110)])
print('V3 log:')
for x in LOG:
    print('    ', x)
if len(LOG) >= 2 and LOG[0][1] == 105.0 and LOG[1][1] == 104.99:
    violations.append(
        "V3: entry fills at 105 on the rising leg (remaining path 105 -> 120 -> 110, minimum 105). The stop-loss "
        "created in on_open_position at 104.99 is filled in the same minute at 104.99, a price that is not on "
        "the part of the path after the fill."
    )

print()
if violations:
    print('C08 VIOLATED:')
    for v in violations:
        print(' -', v)
    sys.exit(1)
print('no violation observed')
sys.exit(0)
