"""
Audit of property C03 (futures account == average-cost margin account).  Exit code 1 when a violation is observed.

Finding 1 (main): Position keeps its size with Decimal(str(float)) arithmetic (jesse.utils.sum_floats /
subtract_floats).  For a position x that is sold in two halves x/2 + x/2 (x/2 is exactly representable, so the
executed quantities sum to EXACTLY zero, in real arithmetic and in IEEE arithmetic alike) the code is left with a
phantom position of ~1e-15: it stays 'long' and open for ever, the strategy layer never sees the close, nothing
resting is cancelled, the margin of the resting entry order stays reserved, no new trade is ever taken.

Finding 2 (minor): cancelling an order removes the FIRST row of the exchange book with the same (qty, price), not
the row of the cancelled order, so "submit then cancel" re-orders the book and the available margin is not restored
exactly.
"""
import sys
from fractions import Fraction

import numpy as np

import jesse.helpers as jh
from jesse import research
from jesse.strategies import Strategy
from jesse.services import selectors

OBS = {}


# ----------------------------------------------------------------------------------------------------------------
# reference: average-cost margin account, exact rational arithmetic on the very doubles that were executed
# ----------------------------------------------------------------------------------------------------------------
class RefAccount:
    def __init__(self, balance, fee, leverage):
        self.wallet = Fraction(balance)
        self.fee = Fraction(fee)
        self.lev = Fraction(leverage)
        self.qty = Fraction(0)
        self.entry = None
        self.resting = []  # (qty, price) of non-reduce-only resting orders

    def fill(self, qty, price, reduce_only):
        qty, price = Fraction(qty), Fraction(price)
        if reduce_only:
            if self.qty * qty >= 0:
                return
            if abs(qty) > abs(self.qty):
                qty = -self.qty
        self.wallet -= abs(qty * price) * self.fee
        if self.qty == 0:
            self.qty, self.entry = qty, price
        elif self.qty * qty > 0:
            self.entry = (abs(qty) * price + abs(self.qty) * self.entry) / (abs(qty) + abs(self.qty))
            self.qty += qty
        else:
            closed = min(abs(qty), abs(self.qty))
            self.wallet += closed * (price - self.entry) * (1 if self.qty > 0 else -1)
            new = self.qty + qty
            if new == 0:
                self.qty, self.entry = Fraction(0), None
                self.resting = []          # the strategy layer cancels everything resting on a close
            elif new * self.qty > 0:
                self.qty = new
            else:
                self.qty, self.entry = new, price

    @property
    def side(self):
        return 'long' if self.qty > 0 else 'short' if self.qty < 0 else 'close'

    def available_margin(self, price):
        m = self.wallet
        if self.qty != 0:
            m -= abs(self.qty) * self.entry / self.lev
            m += (Fraction(price) - self.entry) * self.qty
        buys = sum(q * p for q, p in self.resting if q > 0)
        sells = sum(-q * p for q, p in self.resting if q < 0)
        return m - max(buys, sells) / self.lev


# ----------------------------------------------------------------------------------------------------------------
# finding 1: a plain strategy in a plain session
# ----------------------------------------------------------------------------------------------------------------
class HalfHalf(Strategy):
    """2% of the balance at market + a lower limit entry, take profit in two halves, a stop for the whole size"""

    def should_long(self):
        return True

    def go_long(self):
        qty = self.balance * 0.02 / self.price  # 10000 * 0.02 / 17.77 = 11.254924029262803
        OBS['qty'] = qty
        OBS['entries'] = OBS.get('entries', 0) + 1
        self.buy = [(qty, self.price), (qty / 2, 15.0)]
        self.take_profit = [(qty / 2, 18.0), (qty / 2, 18.5)]
        self.stop_loss = qty, 17.0

    def should_cancel_entry(self):
        return False

    def _fed(self, order):
        OBS['ref'].fill(order.qty, order.price, order.reduce_only)
        OBS.setdefault('fills', []).append((order.qty, order.price, order.reduce_only))

    def on_open_position(self, order):
        self._fed(order)
        # the second entry point is resting now (not reduce-only): the reference reserves its margin too
        OBS['ref'].resting = [(o.qty, o.price) for o in self.orders if o.is_active and not o.reduce_only]

    def on_increased_position(self, order):
        self._fed(order)

    def on_reduced_position(self, order):
        self._fed(order)

    def on_close_position(self, order):
        self._fed(order)

    def after(self):
        p = self.position
        OBS['last'] = dict(price=self.price, qty=p.qty, side=p.type, entry=p.entry_price, wallet=self.balance,
                           margin=self.available_margin,
                           live=[(o.type, o.qty, o.price) for o in self.orders if o.is_active],
                           ref_side=OBS['ref'].side, ref_qty=OBS['ref'].qty, ref_wallet=float(OBS['ref'].wallet),
                           ref_margin=float(OBS['ref'].available_margin(self.price)), fills=list(OBS.get('fills', [])))


def candles():
    closes = [17.77] * 3 + [17.9, 18.1, 18.3, 18.6, 18.8, 18.8, 18.8, 18.8, 18.8]
    arr = np.zeros((len(closes), 6))
    arr[:, 0] = 1609459200000 + np.arange(len(closes)) * 60000
    prev = closes[0]
    for i, c in enumerate(closes):
        arr[i, 1:5] = [prev, c, max(prev, c), min(prev, c)]
        arr[i, 5] = 1
        prev = c
    return arr


def finding_1(fast_mode):
    OBS.clear()
    OBS['ref'] = RefAccount(10_000, 0, 1)
    jh.CACHED_CONFIG.clear()
    config = {'starting_balance': 10_000, 'fee': 0, 'type': 'futures', 'futures_leverage': 1,
              'futures_leverage_mode': 'cross', 'exchange': 'Sandbox', 'warm_up_candles': 0}
    routes = [{'exchange': 'Sandbox', 'strategy': HalfHalf, 'symbol': 'BTC-USDT', 'timeframe': '1m'}]
    c = {'Sandbox-BTC-USDT': {'exchange': 'Sandbox', 'symbol': 'BTC-USDT', 'candles': candles()}}
    research.backtest(config, routes, [], c, fast_mode=fast_mode)

    ref, last = OBS['ref'], OBS['last']
    bad = []
    # compared at the last strategy tick of the session (before the end-of-session clean-up)
    if last['side'] != last['ref_side'] or Fraction(last['qty']) != last['ref_qty']:
        bad.append(f"position: code says {last['side']} {last['qty']!r} (entry {last['entry']}), "
                   f"reference says {last['ref_side']} {float(last['ref_qty'])!r}")
    ref_margin = last['ref_margin']
    if abs(last['margin'] - ref_margin) > 1e-6:
        bad.append(f"available margin: code {last['margin']!r}, reference {ref_margin!r} "
                   f"(still resting in the code: {last['live']})")
    if bad:
        print(f"[finding 1, fast_mode={fast_mode}] executed orders fed to both accounts: {last['fills']}")
        q = OBS['qty']
        print(f"   bought {q!r}, sold {q / 2!r} twice; exact sum of the executed quantities = "
              f"{Fraction(q) - 2 * Fraction(q / 2)}; wallet code {last['wallet']!r} / reference {last['ref_wallet']!r}")
        for b in bad:
            print('   VIOLATION', b)
        print(f"   entries taken in the whole session: {OBS['entries']} (should_long() is always True)")
    return bool(bad)


# ----------------------------------------------------------------------------------------------------------------
# finding 2: submit + cancel does not restore the available margin exactly
# ----------------------------------------------------------------------------------------------------------------
class Done(Exception):
    pass


class Book(Strategy):
    def should_long(self):
        return False

    def go_long(self):
        pass

    def before(self):
        if self.index != 0:
            return
        ex = selectors.get_exchange('Sandbox')
        a = self.broker.buy_at(2128.98, 1.0)
        y = self.broker.buy_at(2471.81, 1.0)
        b = self.broker.buy_at(734.65, 1.0)
        before = ex.available_margin
        x = self.broker.buy_at(2471.81, 1.0)  # same qty and price as the resting order y
        x.cancel()
        after = ex.available_margin
        OBS['book'] = (before, after)
        for o in (a, y, b):
            o.cancel()
        raise Done()


def finding_2():
    OBS.clear()
    jh.CACHED_CONFIG.clear()
    config = {'starting_balance': 10_000, 'fee': 0, 'type': 'futures', 'futures_leverage': 1,
              'futures_leverage_mode': 'cross', 'exchange': 'Sandbox', 'warm_up_candles': 0}
    routes = [{'exchange': 'Sandbox', 'strategy': Book, 'symbol': 'BTC-USDT', 'timeframe': '1m'}]
    arr = candles()
    arr[:, 1:5] = 100.0
    c = {'Sandbox-BTC-USDT': {'exchange': 'Sandbox', 'symbol': 'BTC-USDT', 'candles': arr}}
    try:
        research.backtest(config, routes, [], c)
    except Done:
        pass
    before, after = OBS['book']
    if before != after:
        print(f"[finding 2] available margin before submit {before!r}, after submit + cancel {after!r}: not restored exactly")
        return True
    return False


if __name__ == '__main__':
    v = [finding_1(False), finding_1(True), finding_2()]
    if any(v):
        print('C03 VIOLATED:', dict(zip(['dust position (step simulator)', 'dust position (fast simulator)',
                                         'submit+cancel not exact'], v)))
        sys.exit(1)
    print('C03 holds on the audited inputs')
    sys.exit(0)
