"""C10 - smart order routing and declarative exit orders (Engine A).

Sessions on flat candles (nothing fills except what the routing sends to market) x every declaration site (go_long/go_short,
on_open_position, update_position at 1-3 successive steps, on_reduced_position, liquidate) x lists of 1-2 (qty, price) rows x the
menu of price relations around the 0.015 percent boundary x long/short.  Oracle from the trace: every submitted order has the type its
price relation prescribes, the declared quantity and price, exits are reduce-only on the closing side; after every strategy step
the active exit orders map injectively into the latest declaration, none survives the close; resting entries are cancelled
exactly when should_cancel_entry() said yes.
"""
import itertools

from .. import core, session as S
from ..core import Violation

ID = 'C10'
NEAR = 0.00015
EPS = 1e-7
REL = [0.0, EPS, -EPS, NEAR - EPS, -(NEAR - EPS), NEAR + EPS, -(NEAR + EPS), 0.01, -0.01, 0.05, -0.05]


def expected_type(side, reduce_only, price, cur):
    rel = abs(1 - price / cur)
    if abs(rel - NEAR) <= 1e-9:
        return None          # dont-care band around the threshold
    if rel <= NEAR:
        return 'MARKET'
    if side == 'buy':
        better = price < cur
    else:
        better = price > cur
    # entry at a better price / exit on the profit side (sell above, buy below) -> LIMIT, otherwise STOP
    return 'LIMIT' if better else 'STOP'


def oracle(trace, case, end):
    probs = []
    via = end['via'] if end else []
    pos = 0.0
    latest = {}            # kind -> (rows, site)
    used_rows = {}
    stats = {'submissions': 0, 'after_states': 0, 'cancel_verdicts': 0}
    sym = case['routes'][0]['symbol']
    active = {}            # oid -> submit event
    cycle_orders = {'sl': [], 'tp': []}     # (oid, |qty|, price) of exit orders submitted during the current position cycle
    executed = set()
    i = 0
    n = len(trace)
    pending_cancel_check = None
    pending_liq = None
    while i < n:
        ev = trace[i]
        k = ev[0]
        if k == 'hook' and ev[2] == 'before_terminate':
            break          # the forced close at session end is not a declared order
        if k == 'declare':
            latest[ev[2]] = (ev[3], ev[6], ev[5])
            if ev[6] == 'liquidate':
                pending_liq = i          # liquidate() is a request to close NOW: a market exit has to follow within this step
        elif k == 'submit':
            oid, _, typ, side, qty, price, ro, now, cur, reaction = ev[1:11]
            stats['submissions'] += 1
            active[oid] = ev
            v = via[oid] if oid < len(via) else None
            kind = {'stop-loss': 'sl', 'take-profit': 'tp'}.get(v, 'entry')
            site = latest.get(kind, (None, '?', None))[1]
            sig = {'kind': kind, 'site': site, 'side': 'long' if (pos > 0 or (pos == 0 and side == 'buy')) else 'short'}
            if kind in ('sl', 'tp') and cur and pos != 0:
                rows0 = latest.get(kind, ([], '', None))[0]
                profit = [(p > cur) == (pos > 0) for q, p in rows0 if p != cur]
                if rows0 and profit and ((kind == 'sl' and all(profit)) or (kind == 'tp' and not any(profit))):
                    sig['declared_on_wrong_side'] = True
            if cur:
                want = expected_type(side, ro, price, cur)
                if want and typ != want:
                    probs.append(('order-type', dict(sig, expected=want, got=typ), 'order %d: %s %s qty %r at %r (current price %r, relation %+.7f) was submitted as %s, the rule says %s'
                                  % (oid, side, 'exit' if ro else 'entry', qty, price, cur, price / cur - 1, typ, want)))
            if kind in ('sl', 'tp'):
                if not ro:
                    probs.append(('exit-not-reduce-only', sig, 'order %d submitted via %s is not reduce-only (%s %s at %r)' % (oid, v, typ, side, price)))
                if pos != 0 and ((pos > 0) != (side == 'sell')):
                    probs.append(('exit-wrong-side', sig, 'order %d via %s is a %s while the position is %r' % (oid, v, side, pos)))
            if kind in cycle_orders:
                cycle_orders[kind].append((oid, abs(qty), price))
            rows = latest.get(kind, ([], '', None))[0]
            ok = False
            for (q, p) in rows:
                if abs(abs(qty) - q) <= 1e-12 * max(1, q) and (price == p or (typ == 'MARKET' and kind == 'entry' and cur and abs(price - cur) <= 1e-12 * cur and abs(1 - p / cur) <= NEAR + 1e-9)):
                    ok = True
                    break
            if not ok:
                probs.append(('not-as-declared', sig, 'order %d (%s %s qty %r at %r, via %s) matches no row of the latest %s declaration %s' % (oid, typ, side, qty, price, v, kind, rows)))
        elif k in ('exec', 'cancel') and not ev[3]:
            o = active.pop(ev[1], None)
            if k == 'exec' and o is not None:
                executed.add(ev[1])
                q = o[5]
                if o[7] and abs(q) > abs(pos):
                    q = -pos
                pos += q
                if abs(pos) < 1e-12:
                    pos = 0.0
                    cycle_orders = {'sl': [], 'tp': []}
                    latest.pop('sl', None)
                    latest.pop('tp', None)
        elif k == 'after-state':
            stats['after_states'] += 1
            if pending_liq is not None:
                if not any(t[0] == 'submit' and t[3] == 'MARKET' and t[7] for t in trace[pending_liq:i]):
                    probs.append(('liquidate-without-order', {'kind': trace[pending_liq][2]},
                                  'liquidate() declared %s %s at step %s but no market exit was submitted (position %r)' % (trace[pending_liq][2], trace[pending_liq][3], ev[3], ev[4])))
                pending_liq = None
            _, _, now, idx, pqty, act, decl = ev
            if pqty != 0:
                for kind, vname in (('sl', 'stop-loss'), ('tp', 'take-profit')):
                    rows = list(latest.get(kind, ([], '', None))[0])
                    site = latest.get(kind, (None, '?', None))[1]
                    for (oid, v, typ, side, qty, price, ro) in act:
                        if v != vname:
                            continue
                        m = next((r for r in rows if abs(abs(qty) - r[0]) <= 1e-12 * max(1, r[0]) and price == r[1]), None)
                        if m is None:
                            probs.append(('stale-exit', {'kind': kind, 'site': site}, 'after step %d: active %s order %d (%s qty %r at %r) corresponds to no (remaining) row of the latest declaration %s'
                                          % (idx, vname, oid, typ, qty, price, latest.get(kind, ([],))[0])))
                        else:
                            rows.remove(m)
                    # completeness: every declared row has an order of this position cycle that is active or was filled
                    act_ids = {a[0] for a in act}
                    pool = [(oid, q, p) for (oid, q, p) in cycle_orders[kind] if oid in act_ids or oid in executed]
                    for (rq, rp) in latest.get(kind, ([], '', None))[0]:
                        m = next((x for x in pool if abs(x[1] - rq) <= 1e-12 * max(1, rq) and x[2] == rp), None)
                        if m is None:
                            probs.append(('declared-exit-without-order', {'kind': kind, 'site': site},
                                          'after step %d: the declared %s row (qty %r, price %r) has neither an active nor an executed order' % (idx, vname, rq, rp)))
                            break
                        pool.remove(m)
            else:
                for (oid, v, typ, side, qty, price, ro) in act:
                    if v in ('stop-loss', 'take-profit') or ro:
                        probs.append(('exit-survives-close', {}, 'after step %d the position is closed but order %d (%s %s at %r, via %s) is still active' % (idx, oid, typ, side, price, v)))
        elif k == 'hook' and ev[2] == 'should_cancel_entry':
            stats['cancel_verdicts'] += 1
            verdict = ev[-1]
            resting = sorted(active)
            # look ahead to the end of this strategy step
            j = i + 1
            cancelled = set()
            while j < n and not (trace[j][0] == 'hook' and trace[j][2] in ('should_long', 'after')):
                if trace[j][0] == 'cancel' and not trace[j][3]:
                    cancelled.add(trace[j][1])
                j += 1
            if verdict and set(resting) - cancelled:
                probs.append(('entries-not-cancelled', {}, 'should_cancel_entry() said yes but orders %s kept resting' % sorted(set(resting) - cancelled)))
            if not verdict and cancelled & set(resting):
                probs.append(('entries-cancelled-without-yes', {}, 'should_cancel_entry() said no but orders %s were cancelled' % sorted(cancelled & set(resting))))
        i += 1
    return probs, stats


def base_spec(side):
    return {'rel': True, 'tick': 0, 'unit': 1.0, 'side': side, 'log_declare': True, 'cancel_entry': True}


def scenarios():
    out = []
    for side in ('long', 'short'):
        sg = 1 if side == 'long' else -1
        b = base_spec(side)
        # entries: every relation, one and two rows, cancel yes/no
        for r in REL:
            for ce in (True, False):
                out.append(('entry %+.7f cancel=%s' % (r, ce), dict(b, enter={'when': 'flat', 'legs': [[1, r]]}, cancel_entry=ce)))
        for r1, r2 in ((-0.01, -0.05), (0.01, 0.05), (-0.01, 0.01), (0.0, -0.01), (NEAR - EPS, NEAR + EPS)):
            out.append(('entry2 %+.5f %+.5f' % (r1, r2), dict(b, enter={'when': 'flat', 'legs': [[1, r1], [2, r2]]}, cancel_entry={'after': 2})))
        # exits declared in on_open_position: every relation for sl and tp (also on the "wrong" side)
        ent = {'when': {'at': [0]}, 'legs': [[2, 0.0]]}
        for r in REL:
            out.append(('on_open sl %+.7f' % r, dict(b, enter=ent, on_open={'sl': [[2, r]]})))
            out.append(('on_open tp %+.7f' % r, dict(b, enter=ent, on_open={'tp': [[2, r]]})))
        for r1, r2 in ((0.01, 0.05), (NEAR - EPS, 0.01), (0.0, 0.05)):
            out.append(('on_open tp2 %+.5f %+.5f sl' % (r1, r2), dict(b, enter=ent, on_open={'tp': [[1, r1], [1, r2]], 'sl': [[2, 0.05]]})))
        # exits declared together with the entry (go_long / go_short), futures only
        for r in (0.01, 0.05, NEAR + EPS):
            out.append(('at_entry sl/tp %+.5f' % r, dict(b, enter=ent, at_entry={'sl': [[2, r]], 'tp': [[2, r]]})))
        out.append(('at_entry sl on profit side', dict(b, enter=ent, at_entry={'sl': [[2, -0.01]]})))
        out.append(('at_entry tp on loss side', dict(b, enter=ent, at_entry={'tp': [[2, -0.01]]})))
        # modification scripts in update_position: same / moved / fewer / more / back
        A = {'sl': [[2, 0.05]], 'tp': [[1, 0.01], [1, 0.05]]}
        mods = {
            'same': {'sl': [[2, 0.05]], 'tp': [[1, 0.01], [1, 0.05]]},
            'moved': {'sl': [[2, 0.03]], 'tp': [[1, 0.02], [1, 0.05]]},
            'nudged': {'sl': [[2, 0.0501]], 'tp': [[1, 0.0101], [1, 0.05]]},        # a trailing stop moves by a hundredth of a percent
            'fewer': {'sl': [[2, 0.05]], 'tp': [[2, 0.05]]},
            'more': {'sl': [[1, 0.05], [1, 0.03]], 'tp': [[1, 0.01], [1, 0.05]]},
            'swap-rows': {'sl': [[2, 0.05]], 'tp': [[1, 0.05], [1, 0.01]]},
            'sl-only': {'sl': [[2, 0.01]], 'tp': 'keep'},
            'to-market': {'sl': 'keep', 'tp': [[1, 0.0], [1, 0.05]]},
            # two rows that are exactly equal in quantity and price (a declaration is a list, not a set)
            'dup-sl': {'sl': [[1, 0.05], [1, 0.05]], 'tp': [[1, 0.01], [1, 0.05]]},
            'dup-tp': {'sl': [[2, 0.05]], 'tp': [[1, 0.05], [1, 0.05]]},
            # rows of different size: the bigger part nearer / farther (quantity order against price order, both ways)
            'uneven': {'sl': [[0.5, 0.03], [1.5, 0.05]], 'tp': [[0.5, 0.01], [1.5, 0.05]]},
            'uneven-rev': {'sl': [[1.5, 0.03], [0.5, 0.05]], 'tp': [[1.5, 0.01], [0.5, 0.05]]},
            # a declaration withdrawn altogether: the empty list
            'sl-withdrawn': {'sl': [], 'tp': 'keep'},
            'tp-withdrawn': {'sl': 'keep', 'tp': []},
        }
        for seq in itertools.permutations(mods, 2):
            upd = [dict(mods[m], at=i + 1) for i, m in enumerate(seq)] + [dict(A, at=3)]
            out.append(('update ' + '>'.join(seq) + '>back', dict(b, enter=ent, on_open=A, update=upd)))
        # on_reduced_position after a take-profit that goes to market
        for rc in ({'sl': 'breakeven'}, {'sl': 'all', 'sl_d': 0.01, 'tp': 'all', 'tp_d': 0.02}, {'sl': 'all', 'sl_d': 0.0}):
            out.append(('on_reduced %s' % sorted(rc.items()), dict(b, enter=ent, on_open={'sl': [[2, 0.05]], 'tp': [[1, 0.0], [1, 0.05]]}, on_reduced=rc)))
        # several trades on one route: the same exits declared again after the position was closed and re-opened
        again = {'when': 'flat', 'legs': [[2, 0.0]]}
        out.append(('retrade liquidate same exits', dict(b, enter=again, on_open={'sl': [[2, 0.05]], 'tp': [[2, 0.05]]}, update=[{'at': 1, 'liquidate': True}, {'at': 3, 'liquidate': True}])))
        out.append(('retrade tp-to-market same sl', dict(b, enter=again, on_open={'sl': [[2, 0.05]]}, update=[{'at': 1, 'tp': [[2, 0.0]], 'sl': 'keep'}, {'at': 3, 'tp': [[2, 0.0]], 'sl': 'keep'}])))
        out.append(('retrade at_entry exits', dict(b, enter=again, at_entry={'sl': [[2, 0.05]], 'tp': [[2, 0.05]]}, update=[{'at': 1, 'liquidate': True}])))
        # liquidate() when its own declaration (whole remaining position at the current price) equals an earlier, already filled one
        out.append(('liquidate after an equal filled exit', dict(b, enter=ent, on_open={'sl': [[1, 0.0]]}, update=[{'at': 2, 'liquidate': True}])))
        # liquidate()
        out.append(('liquidate', dict(b, enter=ent, on_open={'sl': [[2, 0.05]], 'tp': [[2, 0.05]]}, update=[{'at': 2, 'liquidate': True}])))
    return out


def build(spec, kind, emb):
    base, tick, unit = emb
    E = base
    rows = [[S.TS0 + i * 60000, E, E, E, E, 1.0] for i in range(6)]
    cfg = {'type': kind, 'fee': 0.0, 'leverage': 2, 'balance': 1000 * E * unit}
    return {'cfg': cfg, 'routes': [{'symbol': 'BTC-USDT', 'timeframe': '1m', 'spec': dict(spec, unit=unit)}], 'candles': {'BTC-USDT': rows}, 'fast': False, 'observe': 1}


def _run(args):
    name, spec, kind, emb = args
    case = build(spec, kind, emb)
    r = S.run_session(case)
    ident = {'scenario': name, 'kind': kind, 'embedding': list(emb)}
    out = {'viols': [], 'stats': {}}
    if r['error']:
        out['viols'].append(Violation('unexpected-exception', {'exc': r['error'][0], 'scenario_kind': name.split(' ')[0]}, ident, '%s: %s' % r['error'][:2]).to_json())
        return out
    probs, stats = oracle(r['trace'], case, r['end'])
    out['stats'] = stats
    for clause, sig, msg in probs:
        out['viols'].append(Violation(clause, sig, ident, msg).to_json())
    return out


def jobs_for(ctx):
    emb = ctx.embedding
    J = []
    for name, spec in scenarios():
        J.append((name, spec, 'futures', emb))
        for sc in core.SCALES:
            J.append((name, spec, 'futures', sc))    # micro-priced and very expensive symbols
        if spec['side'] == 'long' and 'at_entry' not in spec and name.split(' ')[0] in ('entry', 'entry2', 'on_open'):
            J.append((name, spec, 'spot', emb))      # the other scripts re-declare exits larger than the holding, which the spot exchange (rightly) rejects
    return J


def run(ctx):
    cov = ctx.coverage
    J = jobs_for(ctx)
    res = core.pmap(_run, J, chunksize=8)
    sigs = set()
    for j, r in zip(J, res):
        for k, v in r['stats'].items():
            ctx.count(k, v)
        if r['stats'].get('submissions', 0) > 0:
            cov['distinct_nontrivial'] += 1
        for v in r['viols']:
            v = Violation.from_json(v)
            ctx.count('violation:' + v.clause)
            if v.sigkey() in sigs:
                ctx.total_violations += 1
                continue
            sigs.add(v.sigkey())
            ctx.add(v)
    cov['states'] = len(J)
    cov['transitions'] = len(J) * 6
    cov['traces_validated_against_impl'] = len(J)
    cov['evaluations'] = len(J)
    cov['rule'] = 'every scenario of the menu x {futures, spot where legal}; non-trivial = at least one order was submitted'
    cov['bounds'] = {'relations': REL, 'sites': ['go_long/go_short', 'on_open_position', 'update_position x3', 'on_reduced_position', 'liquidate'], 'scenarios': len(scenarios())}
    ctx.sample({'scenario': J[0][0], 'kind': J[0][2]})
    ctx.sample({'scenario': J[-1][0], 'kind': J[-1][2]})
    ctx.assumptions += ['within 1e-9 of the 0.015 percent threshold either type is accepted',
                        'a MARKET entry carries the current price, a MARKET exit the requested price (both within the band), see DESIGN 3/C02 reading note']


def replay(case, ctx):
    emb = tuple(case.get('embedding') or ctx.embedding)
    sc = dict(scenarios())
    return [Violation.from_json(v) for v in _run((case['scenario'], sc[case['scenario']], case['kind'], emb))['viols']]
