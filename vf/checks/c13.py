"""C13 - indicator series are causal: value i depends only on candles 0..i (Engine C).

(i)  word tree: all candle words over a small shape alphabet up to length N with the small-window parameter variants; on every
     tree edge f(w.a)[:len(w)] must equal f(w) - by transitivity the full prefix property on every word and every cut.
(ii) stems: structured series of 300 candles with default parameters (and non-default source types / other windows): for every
     cut k the series computed on the prefix must equal the prefix of the series computed on the whole input.
"""
import itertools

import numpy as np

from .. import core, indreg, progs, session as S
from ..core import Violation

ID = 'C13'
TREE_SIGMA = ['U2w', 'D1', 'FLAT']


def _exempt_tail(name, kw):
    if name == 'minmax':
        return int(kw.get('order', 3))
    return 0


def _compare(name, kw, full, pref, k, exempt):
    """full: result on n candles, pref: result on the first k. Returns list of (field, index, a, b)"""
    out = []
    ff, pf = indreg.fields(full), indreg.fields(pref)
    if len(ff) != len(pf):
        return [('fields', -1, len(ff), len(pf))]
    for (fn, a), (_, b) in zip(ff, pf):
        try:
            a = np.asarray(a, dtype=float)
            b = np.asarray(b, dtype=float)
        except (ValueError, TypeError):
            continue         # non-numeric field (labels)
        if a.ndim == 0 or b.ndim == 0:
            continue
        kk = min(k, len(b)) - exempt
        if kk <= 0 or len(a) < kk:
            continue
        x, y = a[:kk], b[:kk]
        if not indreg.same(x, y):
            bad = np.where(~((np.isnan(x) & np.isnan(y)) | (np.abs(x - y) <= np.maximum(1e-12, 1e-9 * np.maximum(np.abs(x), np.abs(y))))))[0]
            i = int(bad[0]) if len(bad) else -1
            out.append((fn, i, float(x[i]) if i >= 0 else None, float(y[i]) if i >= 0 else None))
    return out


def _stem_job(args):
    names, quick = args[:2]
    kmin = args[2] if len(args) > 2 else 20
    fs = dict(indreg.functions())
    st = indreg.stems(300)
    st2 = indreg.stems(300, base=50.0)
    out = {'n': 0, 'viols': [], 'uncovered': [], 'covered': [], 'raised_short': 0}
    for name in names:
        f = fs[name]
        if not indreg.has(f, 'sequential'):
            continue
        var = indreg.variants(name, f)
        plans = [('default', var['default'], 'close')]
        if 'other' in var:
            plans.append(('other', var['other'], 'close'))
        if 'small' in var:
            plans.append(('small', var['small'], 'close'))
        for vn in var:
            if vn.endswith('-matype') or vn.startswith('dev'):
                plans.append((vn, var[vn], 'close'))
        if indreg.has(f, 'source_type'):
            plans.append(('default', var['default'], 'hl2'))
            plans.append(('default', var['default'], 'volume'))      # the only source that can be exactly zero
            if not quick:
                plans += [('default', var['default'], s) for s in ('high', 'ohlc4')]
        ok_any = False
        for vname, kw, src in plans:
            kw = dict(kw)
            if indreg.has(f, 'source_type') and src != 'close':
                kw['source_type'] = src
            elif src != 'close':
                continue
            found = False
            for sname in (st if not quick else {k: st[k] for k in ('trend', 'ramp', 'spike', 'walk1', 'notrade', 'zerovol-start')}):
                full_c, second = st[sname], st2[sname]
                try:
                    full = indreg.call(name, f, full_c, True, kw, second)
                except Exception as e:
                    out['uncovered'].append('%s[%s,%s]: %s on 300 candles' % (name, vname, src, type(e).__name__))
                    break
                ok_any = True
                ks = list(range(20, 300)) if not quick else sorted(set(range(21, 300, 9)) | {239, 240, 241, 299})
                ks = [k for k in ks if k >= kmin]
                ex = _exempt_tail(name, kw)
                for k in ks:
                    out['n'] += 1
                    try:
                        pref = indreg.call(name, f, full_c[:k], True, kw, second[:k])
                    except Exception:
                        out['raised_short'] += 1
                        continue
                    d = _compare(name, kw, full, pref, k, ex)
                    if d:
                        fn, i, a, b = d[0]
                        out['viols'].append(Violation('not-causal', {'indicator': name}, {'indicator': name, 'variant': vname, 'params': kw, 'stem': sname, 'cut': k, 'mode': 'stem'},
                                                      '%s(%s) field %s index %d: %r on the first %d candles of stem %s, %r on all 300' % (name, kw, fn, i, b, k, sname, a)).to_json())
                        found = True
                        break
                if found:
                    break
        if ok_any:
            out['covered'].append(name)
    return out


def _tree_job(args):
    names, depth = args
    fs = dict(indreg.functions())
    out = {'n': 0, 'edges': 0, 'viols': [], 'raised_short': 0, 'covered': []}
    shapes = [progs.SHAPES[s] for s in TREE_SIGMA]
    lead = [progs.SHAPES['U1'], progs.SHAPES['D2w'], progs.SHAPES['U2w']]     # 3 fixed candles so that windows of 2-4 have something to chew on
    for name in names:
        f = fs[name]
        if not indreg.has(f, 'sequential'):
            continue
        var = indreg.variants(name, f)
        kw = var.get('small')
        if kw is None:
            continue
        ex = _exempt_tail(name, kw)
        found = False
        ever = False

        def compute(word):
            c = S.make_candles(lead + [shapes[i] for i in word], 100.0, 0.5)
            c2 = S.make_candles(lead + [shapes[(i + 1) % 3] for i in word], 60.0, 0.25)
            try:
                return indreg.call(name, f, c, True, kw, c2)
            except Exception:
                return None

        stack = [((), compute(()))]
        # depth-first over the word tree; every edge compares child with parent
        def dfs(word, res):
            nonlocal found, ever
            if found or len(word) >= depth:
                return
            for a in range(3):
                w2 = word + (a,)
                r2 = compute(w2)
                out['n'] += 1
                if r2 is None:
                    out['raised_short'] += 1
                elif res is not None:
                    ever = True
                    out['edges'] += 1
                    d = _compare(name, kw, r2, res, len(lead) + len(word), ex)
                    if d:
                        fn, i, x, y = d[0]
                        out['viols'].append(Violation('not-causal', {'indicator': name}, {'indicator': name, 'variant': 'small', 'params': kw, 'word': list(w2), 'mode': 'tree'},
                                                      '%s(%s) field %s index %d: %r on word %s, %r after appending one candle' % (name, kw, fn, i, y, list(word), x)).to_json())
                        found = True
                        return
                dfs(w2, r2)
                if found:
                    return
        dfs((), stack[0][1])
        if ever:
            out['covered'].append(name)
    return out


def _short_job(args):
    """default parameters on the first k candles of stem walk1, k = 1..19, against the full 300: the values of the very first candles
    (seeds of recursive kernels). One forked child per (indicator, k): kernels may crash natively on inputs shorter than their window."""
    name, k = args
    fs = dict(indreg.functions())
    f = fs[name]
    st = indreg.stems(300)
    st2 = indreg.stems(300, base=50.0)
    out = {'n': 0, 'viols': [], 'raised': 0}
    for sname in ('walk1', 'spike'):
        full_c, second = st[sname], st2[sname]
        try:
            full = indreg.call(name, f, full_c, True, {}, second)
        except Exception:
            return out
        # (a) two full-length inputs that share exactly the first k candles (the rest scaled by 1.03): no short input involved
        hit = False
        for factor in (1.03, 0.97):
            alt, alt2 = full_c.copy(), second.copy()
            alt[k:, 1:5] *= factor
            alt2[k:, 1:5] *= factor
            try:
                other = indreg.call(name, f, alt, True, {}, alt2)
                out['n'] += 1
                d = _compare(name, {}, full, other, k, _exempt_tail(name, {}))        # compares the first k entries of every field
                if d:
                    fn, i, a, b = d[0]
                    out['viols'].append(Violation('not-causal', {'indicator': name}, {'indicator': name, 'variant': 'default', 'params': {}, 'stem': sname, 'cut': k, 'mode': 'short'},
                                                  '%s() field %s index %d: %r and %r on two 300-candle series that share their first %d candles (stem %s, the rest scaled by %s)'
                                                  % (name, fn, i, a, b, k, sname, factor)).to_json())
                    hit = True
                    break
            except Exception:
                out['raised'] += 1
        if hit:
            break
        # (b) the prefix itself
        try:
            pref = indreg.call(name, f, full_c[:k], True, {}, second[:k])
        except Exception:
            out['raised'] += 1
            continue
        out['n'] += 1
        d = _compare(name, {}, full, pref, k, _exempt_tail(name, {}))
        if d:
            fn, i, a, b = d[0]
            out['viols'].append(Violation('not-causal', {'indicator': name}, {'indicator': name, 'variant': 'default', 'params': {}, 'stem': sname, 'cut': k, 'mode': 'short'},
                                          '%s() field %s index %d: %r on the first %d candles of stem %s, %r on all 300' % (name, fn, i, b, k, sname, a)).to_json())
            break
    return out


def _long_job(args):
    """default parameters on a LONG series (the candle store of a backtest grows without bound): the first 300 values must be what they
    are on the first 300 candles"""
    name, n = args
    fs = dict(indreg.functions())
    f = fs[name]
    c = indreg.stems(n)['walk1']
    c2 = indreg.stems(n, base=50.0)['walk1']
    out = {'n': 0, 'viols': []}
    try:
        full = indreg.call(name, f, c, True, {}, c2)
        pref = indreg.call(name, f, c[:300], True, {}, c2[:300])
    except Exception:
        return out
    out['n'] = 1
    d = _compare(name, {}, full, pref, 300, _exempt_tail(name, {}))
    if d:
        fn, i, a, b = d[0]
        out['viols'].append(Violation('not-causal', {'indicator': name}, {'indicator': name, 'variant': 'default', 'params': {}, 'stem': 'walk1', 'cut': 300, 'mode': 'long', 'length': n},
                                      '%s() field %s index %d: %r on the first 300 candles, %r on all %d' % (name, fn, i, b, a, n)).to_json())
    return out


def run(ctx):
    cov = ctx.coverage
    names = [n for n, f in indreg.functions() if indreg.has(f, 'sequential')]
    jobs = [([n], ctx.quick) for n in names]
    sigs = set()
    covered = set()
    uncovered = []
    crashed = []
    first = core.pmap_isolated(_stem_job, jobs)
    # an indicator whose kernel crashes natively on short prefixes is retried with longer minimum prefixes
    retry = [(j[0], j[1], 70) for j, (st, r) in zip(jobs, first) if st != 'ok']
    second = dict(zip([j[0][0] for j in retry], core.pmap_isolated(_stem_job, retry)))
    for j, (st, r) in zip(jobs, first):
        if st != 'ok':
            crashed.append('%s: %s on prefixes of 20..69 candles (stems); retried with prefixes >= 70' % (j[0][0], r))
            st, r = second[j[0][0]]
            if st != 'ok':
                crashed.append('%s: %s also with prefixes >= 70' % (j[0][0], r))
                continue
        cov['transitions'] += r['n']
        ctx.count('prefix-comparisons(stems)', r['n'])
        ctx.count('raised-on-short-input', r['raised_short'])
        covered |= set(r['covered'])
        uncovered += r['uncovered']
        for v in r['viols']:
            v = Violation.from_json(v)
            if v.sigkey() not in sigs:
                sigs.add(v.sigkey())
                ctx.add(v)
    # very short prefixes (1..19 candles), default parameters
    sjobs = [(n, k) for n in names for k in (range(1, 20) if not ctx.quick else (1, 2, 3, 5, 8, 12, 13, 19))]
    ncr = 0
    for (n, k), (st, r) in zip(sjobs, core.pmap_isolated(_short_job, sjobs)):
        if st != 'ok':
            ncr += 1
            continue
        cov['transitions'] += r['n']
        ctx.count('prefix-comparisons(short)', r['n'])
        ctx.count('raised-on-short-input', r['raised'])
        for v in r['viols']:
            v = Violation.from_json(v)
            if v.sigkey() not in sigs:
                sigs.add(v.sigkey())
                ctx.add(v)
    if ncr:
        crashed.append('%d (indicator, k) pairs with k <= 19 candles crashed natively (kernels without bounds checks on inputs shorter than their window)' % ncr)
    nlong = 3600 if ctx.quick else 9000
    for n, (st, r) in zip(names, core.pmap_isolated(_long_job, [(n, nlong) for n in names])):
        if st != 'ok':
            crashed.append('%s: %s on %d candles' % (n, r, nlong))
            continue
        cov['transitions'] += r['n']
        ctx.count('prefix-comparisons(long)', r['n'])
        for v in r['viols']:
            v = Violation.from_json(v)
            if v.sigkey() not in sigs:
                sigs.add(v.sigkey())
                ctx.add(v)
    depth = 6 if ctx.quick else 8
    tcov = set()
    for n, (st, r) in zip(names, core.pmap_isolated(_tree_job, [([n], depth) for n in names])):
        if st != 'ok':
            crashed.append('%s: %s (word tree, small windows on %d..%d candles)' % (n, r, 3, 3 + depth))
            continue
        cov['transitions'] += r['n']
        ctx.count('tree-edges-compared', r['edges'])
        ctx.count('raised-on-short-input', r['raised_short'])
        tcov |= set(r['covered'])
        for v in r['viols']:
            v = Violation.from_json(v)
            if v.sigkey() not in sigs:
                sigs.add(v.sigkey())
                ctx.add(v)
    cov['states'] = cov['transitions']
    cov['traces_validated_against_impl'] = cov['transitions']
    cov['evaluations'] = cov['transitions']
    cov['distinct_nontrivial'] = len(covered)
    cov['rule'] = ('every sequential indicator x parameter variants x stems x cuts, plus the word tree with small windows; distinct_nontrivial = indicators for which at least one '
                   'full-vs-prefix comparison was made')
    cov['bounds'] = {'indicators_with_sequential': len(names), 'covered_by_stems': len(covered), 'covered_by_tree': len(tcov), 'tree_alphabet': TREE_SIGMA, 'tree_depth': depth,
                     'stems': sorted(indreg.stems(10)), 'cuts': 'every k in 20..299' if not ctx.quick else 'k = 21, 30, ... and 239, 240, 241, 299'}
    cov['uncovered'] = sorted(set(uncovered))[:60] + sorted(set(names) - covered)
    cov['native_crashes'] = crashed
    ctx.sample({'indicator': 'ema', 'variant': 'default', 'stem': 'walk1', 'cut': 240})
    ctx.sample({'indicator': 'macd', 'variant': 'small', 'word': [0, 2, 1]})
    ctx.assumptions += ['values are compared NaN-aware with relative tolerance 1e-9', 'minmax is exempt in its last `order` positions, nothing else is exempt']


def replay(case, ctx):
    name = case['indicator']
    if case.get('mode') == 'long':
        r = _long_job((name, case['length']))
    elif case.get('mode') == 'short':
        r = _short_job((name, case['cut']))
    elif case.get('mode') == 'tree':
        r = _tree_job(([name], len(case['word'])))
    else:
        r = _stem_job(([name], False))
    return [Violation.from_json(v) for v in r['viols']]
