"""C18 - DynamicNumpyArray behaves like a list of rows.

Engine B: breadth-first search over operation histories on the real object.  A state is the history that
reaches it; histories are replayed on a fresh object; states are merged on a canonical key made of the
fields every method reads (index, capacity, bucket size, which rows are live) - row *values* are fresh
counters and never branch on, so they are canonicalised by order of appearance.

Oracle (per transition, differential): apply the same operation to the Python list that mirrors the
content *before* the operation; the real object must then hold exactly that list (with drop_at: a suffix
of it, the whole of it while it is shorter than drop_at).  In every reached state all observers (len,
every index in [-n-1, n], every slice with bounds in {None} u [-n-1, n+1], get_last_item, get_past_item)
are compared with the list; whatever is valid on the list must not raise, invalid indices must raise
IndexError.
"""
import collections
import itertools

import numpy as np

from .. import core
from ..core import Violation

ID = 'C18'


def _mk():
    from jesse.libs import DynamicNumpyArray
    return DynamicNumpyArray


def ops_for(b, drop):
    ops = [('append',)]
    for k in sorted({1, 2, b, b + 1}):
        ops.append(('append_multiple', k))
    ops.append(('append_multiple', 0))        # extend([])
    if drop is None:
        ops += [('delete', 'first'), ('delete', 'middle'), ('delete', 'last'), ('delete', 'neg1'), ('delete', 'neg2'), ('flush',),
                ('setslice', 1, 'far'), ('setslice', 'far-neg', 2),      # bounds a list clamps
                ('setitem', 0), ('setitem', -1), ('setslice_tail', 1), ('setslice_tail', 2), ('setslice_mid',),
                ('setslice', None, 2), ('setslice', 1, None), ('setslice', -3, -1), ('setslice', None, None)]
    else:
        # jesse uses drop_at only on append-only stores (tickers, trades, orderbook)
        ops += [('flush',), ('setitem', -1)]
    return ops


class Sim:
    """Real object + mirror list, advanced together."""

    def __init__(self, cfg):
        b, drop = cfg
        self.cfg = cfg
        self.a = _mk()((b, 2), drop_at=drop)
        self.m = []          # mirror of the logical content (list of [x, y])
        self.ctr = 0
        self.problems = []   # (clause, signature, message)

    def row(self):
        self.ctr += 1
        return [float(self.ctr), float(-self.ctr)]

    def content(self):
        n = self.a.index + 1
        return [list(map(float, r)) for r in self.a.array[:n]] if n > 0 else []

    def enabled(self, op):
        n = len(self.m)
        if op[0] == 'delete':
            return n >= 1
        if op[0] == 'setitem':
            return n >= 1
        if op[0] == 'setslice_tail':
            return n >= op[1]
        if op[0] == 'setslice_mid':
            return n >= 3
        if op[0] == 'setslice':
            return n >= 3
        return True

    def apply(self, op):
        a, m = self.a, self.m
        b, drop = self.cfg
        exp = [list(r) for r in m]
        try:
            if op[0] == 'append':
                r = self.row()
                exp.append(r)
                a.append(np.array(r))
            elif op[0] == 'append_multiple':
                rs = [self.row() for _ in range(op[1])]
                exp.extend(rs)
                a.append_multiple(np.array(rs) if rs else np.zeros((0, 2)))
            elif op[0] == 'delete':
                i = {'first': 0, 'middle': len(exp) // 2, 'last': len(exp) - 1, 'neg1': -1, 'neg2': -min(2, len(exp))}[op[1]]
                del exp[i]
                a.delete(i, axis=0)
            elif op[0] == 'flush':
                exp = []
                a.flush()
            elif op[0] == 'setitem':
                r = self.row()
                exp[op[1]] = r
                a[op[1]] = np.array(r)
            elif op[0] == 'setslice_tail':
                k = op[1]
                rs = [self.row() for _ in range(k)]
                exp[-k:] = rs
                a[-k:] = np.array(rs)
            elif op[0] == 'setslice_mid':
                rs = [self.row() for _ in range(2)]
                exp[1:3] = rs
                a[1:3] = np.array(rs)
            elif op[0] == 'setslice':
                far = len(exp) + 5
                sl = slice(-far if op[1] == 'far-neg' else op[1], far if op[2] == 'far' else op[2])
                k = len(exp[sl])
                rs = [self.row() for _ in range(k)]
                exp[sl] = rs
                a[sl] = np.array(rs)
        except Exception as e:  # valid on the list, must not raise
            self.problems.append(('op-raises', {'op': op[0], 'exc': type(e).__name__},
                                  '%s raised %r with list content of length %d' % (op, e, len(m))))
            return False
        got = self.content()
        ok = True
        if drop is None or len(exp) < drop:
            if got != exp:
                ok = False
        else:
            if len(got) == 0 or got != exp[len(exp) - len(got):]:
                ok = False
        if ok and drop is not None and op[0] == 'append' and len(m) < drop and len(got) >= drop:
            # the drop-oldest LIMIT: a single append to an array below the limit must leave it below the limit
            self.problems.append(('drop-limit-not-applied', {'op': op[0]},
                                  'after %s on %d rows the array holds %d rows, the drop-oldest limit is %d' % (op, len(m), len(got), drop)))
            return False
        if not ok:
            self.problems.append(('content', {'op': op[0], 'drop': drop is not None},
                                  'after %s content is %s, list model says %s' % (op, got, exp)))
            return False
        self.m = got
        return True

    def canon(self):
        a = self.a
        tail = tuple(bool(x) for x in (a.array[a.index + 1:] != 0).any(axis=1))   # stale rows beyond the live part
        # every attribute a method reads is part of the key (drop_at and shape are meant to be constants of an array: if an
        # operation changes them, that must show up as a new state, not be merged away)
        return (a.index, a.array.shape[0], a.bucket_size, tail, a.drop_at, tuple(a.shape) if isinstance(a.shape, (tuple, list)) else a.shape)

    def observe(self):
        a, m = self.a, self.m
        n = len(m)
        out = []
        try:
            la = len(a)
        except Exception as e:
            return [('len-raises', {'exc': type(e).__name__}, 'len() raised %r, list has %d rows' % (e, n))]
        if la != n:
            out.append(('len', {}, 'len() is %d, list has %d' % (la, n)))
        for i in range(-n - 1, n + 1):
            valid = -n <= i < n
            try:
                got = list(map(float, a[i]))
                if not valid:
                    out.append(('index-accepts-invalid', {'neg': i < 0}, 'a[%d] returned %s on %d rows' % (i, got, n)))
                elif got != m[i]:
                    out.append(('index-read', {'neg': i < 0}, 'a[%d] = %s, list says %s' % (i, got, m[i])))
            except IndexError as e:
                if valid:
                    out.append(('index-raises', {'neg': i < 0}, 'a[%d] raised %r on %d rows' % (i, e, n)))
            except Exception as e:
                out.append(('index-raises', {'neg': i < 0, 'exc': type(e).__name__}, 'a[%d] raised %r on %d rows' % (i, e, n)))
        bounds = [None] + list(range(-n - 1, n + 2))
        for s in bounds:
            for e in bounds:
                exp = m[s:e]
                try:
                    got = [list(map(float, r)) for r in a[s:e]]
                except Exception as ex:
                    out.append(('slice-raises', {'start': _kind(s), 'stop': _kind(e)}, 'a[%s:%s] raised %r on %d rows' % (s, e, ex, n)))
                    continue
                if got != exp:
                    out.append(('slice-read', {'start': _kind(s, n), 'stop': _kind(e, n)},
                                'a[%s:%s] = %s, list says %s (rows=%d capacity=%d)' % (s, e, got, exp, n, a.array.shape[0])))
        try:
            got = list(map(float, a.get_last_item()))
            if n == 0:
                out.append(('last-item', {}, 'get_last_item on empty returned %s' % got))
            elif got != m[-1]:
                out.append(('last-item', {}, 'get_last_item = %s, list says %s' % (got, m[-1])))
        except IndexError:
            if n:
                out.append(('last-item', {}, 'get_last_item raised on %d rows' % n))
        for k in range(0, n + 1):
            try:
                got = list(map(float, a.get_past_item(k)))
                if k >= n:
                    out.append(('past-item', {}, 'get_past_item(%d) returned on %d rows' % (k, n)))
                elif got != m[n - 1 - k]:
                    out.append(('past-item', {}, 'get_past_item(%d) = %s, list says %s' % (k, got, m[n - 1 - k])))
            except IndexError:
                if k < n:
                    out.append(('past-item', {}, 'get_past_item(%d) raised on %d rows' % (k, n)))
        return out


def _kind(v, n=None):
    if v is None:
        return 'none'
    if v < 0:
        if n is not None and v < -n:
            return 'below-range'
        return 'negative'
    return 'nonneg'


def build(cfg, hist):
    """Replay a history on fresh objects. Returns (sim, ok) - ok False when the last op failed its oracle."""
    s = Sim(tuple(cfg))
    ok = True
    for op in hist:
        ok = s.apply(tuple(op))
        if not ok:
            break
    return s, ok


def explore(args):
    cfg, depth = args
    seen = {}
    frontier = collections.deque([()])
    s0, _ = build(cfg, ())
    seen[s0.canon()] = ()
    viols = []
    seen_sig = set()
    trans = 0
    execs = 0
    outcomes = collections.Counter()
    maxd = 0

    def report(clause, sig, msg, hist):
        sig = dict(sig)
        sig['clause'] = clause
        key = repr(sorted(sig.items()))
        outcomes['violation:' + clause] += 1
        if key in seen_sig:
            return
        seen_sig.add(key)
        viols.append(Violation(clause, sig, {'cfg': list(cfg), 'history': [list(o) for o in hist]}, msg).to_json())

    for clause, sig, msg in s0.observe():
        report(clause, sig, msg, ())
    ops = ops_for(*cfg)
    while frontier:
        h = frontier.popleft()
        base, _ = build(cfg, h)
        execs += 1
        for op in ops:
            if not base.enabled(op):
                continue
            h2 = h + (op,)
            s, ok = build(cfg, h2)
            execs += 1
            trans += 1
            outcomes[op[0]] += 1
            if not ok:
                for clause, sig, msg in s.problems:
                    report(clause, sig, msg, h2)
                continue   # the object is no longer a list; do not explore beyond a broken state
            k = s.canon()
            if k in seen:
                continue
            for clause, sig, msg in s.observe():
                report(clause, sig, msg, h2)
            seen[k] = h2
            maxd = max(maxd, len(h2))
            if len(h2) < depth:
                frontier.append(h2)
    return {'cfg': list(cfg), 'states': len(seen), 'transitions': trans, 'execs': execs, 'viols': viols,
            'outcomes': dict(outcomes), 'max_depth': maxd,
            'sample': [list(o) for o in list(seen.values())[-1]]}


def run(ctx):
    depth = 8 if ctx.quick else 14
    cfgs = [(b, d) for b in (2, 3, 4) for d in (None, 4, 6)] + [(10, None)] + ([] if ctx.quick else [(5, None), (3, 5), (5, 3), (6, 12)])
    res = core.pmap(explore, [(c, depth if c[0] < 10 else min(depth, 6)) for c in cfgs], chunksize=1)
    cov = ctx.coverage
    for r in res:
        cov['states'] += r['states']
        cov['transitions'] += r['transitions']
        cov['traces_validated_against_impl'] += r['execs']
        ctx.merge_counts(r['outcomes'])
        for v in r['viols']:
            ctx.add(Violation.from_json(v))
        ctx.sample({'cfg': r['cfg'], 'history': r['sample']}, limit=4)
    cov['evaluations'] = cov['transitions']
    cov['distinct_nontrivial'] = cov['states']
    cov['rule'] = ('BFS over operation histories on the real DynamicNumpyArray; distinct = canonical states '
                   '(index, capacity, bucket_size) per configuration; every state is non-trivial (all observers compared with a list)')
    cov['bounds'] = {'depth': depth, 'configs(bucket,drop_at)': cfgs,
                     'ops': [list(o) for o in ops_for(3, None)]}
    ctx.assumptions += ['rows are 2 floats; row values never influence control flow, so states are merged on (index, capacity, bucket_size)',
                        'with drop_at only append/append_multiple/flush/item assignment are driven (jesse uses drop_at on append-only stores)',
                        'drop-oldest limit: how many rows a drop removes is left to the implementation, but a single append to an array below the limit must leave it below the limit (bulk appends may overshoot until the next drop)']


def replay(case, ctx):
    cfg = tuple(case['cfg'])
    hist = [tuple(o) for o in case['history']]
    s, ok = build(cfg, hist)
    out = []
    probs = s.problems if not ok else s.observe()
    for clause, sig, msg in probs:
        sig = dict(sig)
        out.append(Violation(clause, sig, case, msg))
    return out
