import warnings; warnings.filterwarnings('ignore')
import time, json
from vf import session as S
spec={'side':'long','tick':1.0,'unit':1.0,'enter':{'when':'flat','legs':[[1,-1]]},'on_open':{'sl':[[1,2]],'tp':[[1,2]]},'cancel_entry':True}
word=[(0,0,0,0)]*2+[(0,1,1,1),(0,-2,0,1),(1,2,1,0),(0,-3,0,0),(0,3,1,1),(0,0,1,1)]
c=S.make_candles(word,100.0,1.0)
case={'cfg':{'type':'futures','fee':0.001,'leverage':2},'routes':[{'symbol':'BTC-USDT','timeframe':'1m','spec':spec}],'candles':{'BTC-USDT':c.tolist()},'fast':False,'observe':1}
r=S.run_session(case)
print(r['error'])
for e in r['trace']: print(e)
print(r['end']['trades'], r['end']['assets'])
t=time.time()
for i in range(100): S.run_session(case)
print((time.time()-t)/100*1000,'ms/session')
case['fast']=True; case['routes'][0]['timeframe']='3m'
r=S.run_session(case); print(r['error']); print(len(r['trace']))
for e in r['trace'][:40]: print(e)
