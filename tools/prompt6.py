import json,sys,glob,subprocess
pid, wt = sys.argv[1], sys.argv[2]
prev=[]
for f in sorted(glob.glob('/verif/seeded/%s-*/meta.json'%pid)):
    m=json.load(open(f)); prev.append('- '+m['needs_to_manifest'])
variant=("ROUND THEME: earlier rounds already produced the changes listed below for this property. Yours must use a DIFFERENT mechanism, in a DIFFERENT function or code path where possible, and must need a different kind of trigger. Already used (do not repeat or vary these):\n"+'\n'.join(prev)+"\nLook for code paths the list never touches (other branches, other modes, other configuration values, helper functions the anchored code calls).")
out=subprocess.run(['/venv/bin/python','/verif/tools/agent_prompt.py',pid,wt,variant],capture_output=True,text=True).stdout
out=out.replace("(check both: `git stash` / `git stash pop` or `git diff > /tmp/x.patch; git checkout -- jesse; ...`)","(check both with: `git diff -- jesse > /tmp/seed9_%s.patch; git checkout -- jesse; run; git apply the patch again` - do NOT use git stash, the stash is shared between worktrees)"%pid)
print(out)
