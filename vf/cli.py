import argparse
import importlib
import json
import os
import signal
import sys
import time
import traceback

from . import core


def _alarm(signum, frame):
    print('HARNESS-ERROR: overall time limit hit', flush=True)
    os._exit(2)


def main(argv=None):
    ap = argparse.ArgumentParser(prog='check')
    ap.add_argument('prop')
    ap.add_argument('--tier', default=os.environ.get('VERIF_TIER', 'quick'), choices=['quick', 'thorough'])
    ap.add_argument('--replay', default=None)
    ap.add_argument('--seed', type=int, default=None)
    a = ap.parse_args(argv)
    prop = a.prop.upper()
    seed = a.seed if a.seed is not None else int(os.environ.get('VERIF_SEED', '0') or 0)
    os.chdir(core.ROOT)
    try:
        mod = importlib.import_module('vf.checks.' + prop.lower())
    except ImportError:
        traceback.print_exc()
        print('HARNESS-ERROR: no check module for', prop)
        return 2

    if a.replay:
        return replay(mod, prop, a.replay, seed)

    signal.signal(signal.SIGALRM, _alarm)
    signal.alarm(int(os.environ.get('VERIF_LIMIT_S', '2400' if a.tier == 'quick' else '14400')))
    ctx = core.Ctx(prop, a.tier, seed)
    t0 = time.time()
    try:
        mod.run(ctx)
    except core.HarnessError as e:
        print('HARNESS-ERROR:', e, flush=True)
        return 2
    except Exception:
        traceback.print_exc()
        print('HARNESS-ERROR: check crashed', flush=True)
        return 2
    wall = time.time() - t0

    findings = core.load_findings(prop)
    known_hit = {}
    unlisted = {}
    for v in ctx.violations:
        e = core.match_finding(v, findings)
        if e is not None:
            known_hit.setdefault(e['id'], [e, 0])[1] += 1
        else:
            unlisted.setdefault(v.sigkey(), []).append(v)
    for fid, (e, n) in sorted(known_hit.items()):
        print('KNOWN-FINDING: property=%s %s [%s, %d case(s) this run]' % (prop, e['what'], fid, n))
    n_unlisted = 0
    for sk, vs in sorted(unlisted.items()):
        n_unlisted += len(vs)
        v = vs[0]   # engines emit simplest-first, the first case of a signature is the smallest
        path = core.write_replay(prop, v)
        print('VIOLATION property=%s replay=%s' % (prop, path))
        print('  clause=%s signature=%s cases=%d' % (v.clause, json.dumps(core.jsonable(v.signature), sort_keys=True), len(vs)))
        print('  ' + str(v.message)[:600])
    try:
        ev = core.write_evidence(ctx, wall, n_unlisted, {k: n for k, (e, n) in known_hit.items()})
    except core.HarnessError as e:
        print('HARNESS-ERROR:', e, flush=True)
        return 2
    c = ctx.coverage
    print('%s tier=%s seed=%d states=%d transitions=%d executions=%d nontrivial=%d exhaustive=%s violations=%d known=%d wall=%.1fs'
          % (prop, a.tier, seed, c['states'], c['transitions'], c['traces_validated_against_impl'],
             c['distinct_nontrivial'], c['exhaustive'], n_unlisted, sum(n for e, n in known_hit.values()), wall))
    if c.get('outcomes'):
        print('  outcomes: ' + json.dumps(core.jsonable(c['outcomes']), sort_keys=True)[:1500])
    return 1 if n_unlisted else 0


def replay(mod, prop, path, seed):
    with open(path) as f:
        body = json.load(f)
    case = body['case']
    outs = []
    for _ in range(2):
        ctx = core.Ctx(prop, 'quick', seed)
        vs = mod.replay(case, ctx)
        outs.append(sorted(v.sigkey() + '|' + str(v.message) for v in vs))
        last = vs
    if outs[0] != outs[1]:
        print('HARNESS-ERROR: replay diverged between two executions')
        return 2
    findings = core.load_findings(prop)
    rc = 0
    for v in last:
        e = core.match_finding(v, findings)
        if e is not None:
            print('KNOWN-FINDING: property=%s %s [%s]' % (prop, e['what'], e['id']))
        else:
            rc = 1
            print('VIOLATION property=%s replay=%s' % (prop, path))
            print('  clause=%s signature=%s' % (v.clause, json.dumps(core.jsonable(v.signature), sort_keys=True)))
            print('  ' + str(v.message)[:1500])
    if not last:
        print('replay: property held on this case')
    return rc


if __name__ == '__main__':
    sys.exit(main())
