"""
Audit of property C14 (sequential and single-value indicator results agree).

Run:  cd /tmp/wta_C14 && /venv/bin/python audit_C14.py
Exits 1 and prints the violations found, exits 0 if none of them reproduces.
"""
import os
import sys
import warnings

warnings.filterwarnings('ignore')
sys.path.insert(0, os.path.dirname(os.path.abspath(__file__)))

import numpy as np
import jesse.helpers as jh
import jesse.indicators as ta

jh.CACHED_CONFIG.clear()
assert os.path.dirname(os.path.abspath(__file__)) in os.path.abspath(ta.__file__), ta.__file__


def mk(n, seed=1, scale=100.0):
    """n well-formed 1m candles [timestamp, open, close, high, low, volume] (random walk)."""
    rng = np.random.default_rng(seed)
    close = scale * np.exp(np.cumsum(rng.normal(0, 0.01, n)))
    open_ = np.concatenate(([close[0]], close[:-1]))
    high = np.maximum(open_, close) * (1 + np.abs(rng.normal(0, 0.003, n)))
    low = np.minimum(open_, close) * (1 - np.abs(rng.normal(0, 0.003, n)))
    vol = rng.uniform(1, 100, n)
    ts = 1609459200000 + np.arange(n) * 60000
    return np.column_stack([ts, open_, close, high, low, vol]).astype(float)


violations = []


def violation(tag, msg):
    violations.append(tag)
    print(f'[{tag}] {msg}')


def call(f, *a, **k):
    try:
        return f(*a, **k), None
    except Exception as e:  # noqa
        return None, f'{type(e).__name__}: {e}'


def close(a, b):
    return bool(np.isclose(float(a), float(b), rtol=1e-6, atol=1e-9, equal_nan=True))


c10 = mk(10)     # shorter than the default period (14 / 20) of the indicators below
c600 = mk(600)   # longer than the warm-up window (240)
tail = c600[-240:]

# ---------------------------------------------------------------------------------------------
# V1  adx: sequential result is a scalar when len(candles) <= period
# ---------------------------------------------------------------------------------------------
r = ta.adx(c10, sequential=True)
if np.ndim(r) == 0:
    violation('V1 adx', f'adx(10 candles, period=14, sequential=True) returned the scalar {r!r}; '
                        f'expected an array with 10 entries')
r = ta.adx(mk(14), sequential=True)
if np.ndim(r) == 0:
    violation('V1 adx', f'adx(14 candles, period=14, sequential=True) returned the scalar {r!r}; '
                        f'expected 14 entries (15 candles do give 15 entries: {len(ta.adx(mk(15), sequential=True))})')

# ---------------------------------------------------------------------------------------------
# V2  mfi: sequential result has 2*period - n entries when n < period, and a number instead of NaN
# ---------------------------------------------------------------------------------------------
r = ta.mfi(c10, sequential=True)
if len(r) != len(c10):
    violation('V2 mfi', f'mfi(10 candles, period=14, sequential=True) has {len(r)} entries for 10 candles; '
                        f'non-sequential = {ta.mfi(c10)!r} although fewer than `period` candles exist')

# ---------------------------------------------------------------------------------------------
# V3  donchian: with n < period the sequential call raises, the non-sequential one returns numbers
# ---------------------------------------------------------------------------------------------
rs, es = call(ta.donchian, c10, sequential=True)
rn, en = call(ta.donchian, c10, sequential=False)
if (es is None) != (en is None):
    violation('V3 donchian', f'donchian(10 candles, period=20): sequential -> {es or rs}; non-sequential -> {en or rn}')
elif es is None and not close(rs.upperband[-1], rn.upperband):
    violation('V3 donchian', f'last {rs.upperband[-1]} != {rn.upperband}')

# ---------------------------------------------------------------------------------------------
# V4  tsf: with n < period (or period=1) the non-sequential call raises, the sequential one returns NaNs
# ---------------------------------------------------------------------------------------------
rs, es = call(ta.tsf, c10, sequential=True)
rn, en = call(ta.tsf, c10, sequential=False)
if (es is None) != (en is None):
    violation('V4 tsf', f'tsf(10 candles, period=14): sequential -> {es or rs}; non-sequential -> {en}')
rs, es = call(ta.tsf, mk(100), period=1, sequential=True)
rn, en = call(ta.tsf, mk(100), period=1, sequential=False)
if (es is None) != (en is None):
    violation('V4 tsf', f'tsf(100 candles, period=1): sequential -> last {rs[-1] if es is None else es}; non-sequential -> {en or rn}')

# ---------------------------------------------------------------------------------------------
# V5  vwmacd: the non-sequential result is NOT computed on the trailing warm-up window
# ---------------------------------------------------------------------------------------------
n = ta.vwmacd(c600, 50, 200, 50, sequential=False)
t = ta.vwmacd(tail, 50, 200, 50, sequential=True)
if not (close(n.macd, t.macd[-1]) and close(n.signal, t.signal[-1]) and close(n.hist, t.hist[-1])):
    violation('V5 vwmacd', f'vwmacd(600 candles, 50, 200, 50): non-sequential signal={n.signal!r} hist={n.hist!r}; '
                           f'sequential on the trailing 240 candles ends with signal={t.signal[-1]!r} hist={t.hist[-1]!r}')
cn = c600.copy()
cn[100, 1:6] = np.nan   # one undefined candle, 500 candles before the end, far outside the warm-up window
n = ta.vwmacd(cn, sequential=False)
t = ta.vwmacd(cn[-240:], sequential=True)
if not (close(n.macd, t.macd[-1]) and close(n.signal, t.signal[-1]) and close(n.hist, t.hist[-1])):
    violation('V5 vwmacd', f'vwmacd(default periods, 600 candles, candle #100 is NaN): non-sequential = {tuple(n)}; '
                           f'sequential on the trailing 240 candles ends with {(t.macd[-1], t.signal[-1], t.hist[-1])}')

# ---------------------------------------------------------------------------------------------
# V6  squeeze_momentum: same defect (no warm-up slicing), beyond the known momentum_signal length
# ---------------------------------------------------------------------------------------------
n = ta.squeeze_momentum(c600, length_kc=130, sequential=False)
t = ta.squeeze_momentum(tail, length_kc=130, sequential=True)
if not close(n.momentum, t.momentum[-1]) or n.momentum_signal != t.momentum_signal[-1]:
    violation('V6 squeeze_momentum', f'squeeze_momentum(600 candles, length_kc=130): non-sequential momentum={n.momentum!r} '
                                     f'signal={n.momentum_signal}; sequential on the trailing 240 candles ends with '
                                     f'momentum={t.momentum[-1]!r} signal={t.momentum_signal[-1]}')

# ---------------------------------------------------------------------------------------------
# V7  sar: sequential result of a single candle is a scalar
# ---------------------------------------------------------------------------------------------
r = ta.sar(mk(1), sequential=True)
if np.ndim(r) == 0:
    violation('V7 sar', f'sar(1 candle, sequential=True) returned the scalar {r!r}; expected an array with 1 entry')

# ---------------------------------------------------------------------------------------------
# V8  (minor) minmax: n <= order -> the non-sequential call raises, the sequential one answers.
#     last_min / last_max are not covered by the documented exemption.
# ---------------------------------------------------------------------------------------------
rs, es = call(ta.minmax, mk(3), sequential=True)
rn, en = call(ta.minmax, mk(3), sequential=False)
if (es is None) != (en is None):
    violation('V8 minmax', f'minmax(3 candles, order=3): sequential last_min[-1]={rs.last_min[-1]!r}; non-sequential -> {en}')

if violations:
    print(f'\nC14 VIOLATED: {len(violations)} observations in {len(set(violations))} indicators: {sorted(set(violations))}')
    sys.exit(1)
print('no C14 violation reproduced')
sys.exit(0)
