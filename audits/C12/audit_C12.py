"""
Audit of property C12 (fast mode reproduces the normal simulation when fills are unambiguous).

Run:  cd /tmp/wta_C12 && /venv/bin/python audit_C12.py
exit 1 = the property is violated (explanation printed), exit 0 = no violation observed.

Two independent counterexamples are replayed, each once with the normal simulator and once with the fast one:

 V1  phantom liquidation: an isolated-margin position is opened by the ONLY resting-order fill of a 5m trading
     candle, in its 2nd minute; the 1st minute of that candle (before the position existed) had dipped below what
     later becomes the liquidation price. The normal simulation has no liquidation at all; the fast simulator checks
     the liquidation price against the candle aggregated over the whole chunk and liquidates the position.

 V2  1m candles handed to the strategy: the normal simulator stores every 1m candle jump-fixed (open = previous
     close), the fast simulator stores the minutes 2..n of a chunk raw. A 5m strategy that prices its limit entry from
     the open of the last 1m candle gets a different executed price.
"""
import os
import sys
import warnings

warnings.filterwarnings('ignore')
sys.path.insert(0, os.path.dirname(os.path.abspath(__file__)))

import numpy as np
import jesse.helpers as jh
from jesse import research
from jesse.store import store
from jesse.services import selectors
from jesse.strategies import Strategy

T0 = 1609459200000
SNAP = {}


def candles(rows):
    # rows: (open, close, high, low)
    return np.array([[T0 + i * 60_000, o, c, h, l, 1.0] for i, (o, c, h, l) in enumerate(rows)], dtype=float)


class Base(Strategy):
    def should_long(self): return self.index == 0
    def should_short(self): return False
    def should_cancel_entry(self): return False
    def go_short(self): pass

    def before_terminate(self):
        # state at the end of the simulation, before the framework closes what is still open
        orders = []
        for t in store.completed_trades.trades:
            orders += list(t.orders)
        for o in store.orders.get_orders(self.exchange, self.symbol):
            if not any(o is x for x in orders):
                orders.append(o)
        SNAP['executed'] = [(o.side, o.type, float(o.qty), float(o.price), int(o.executed_at))
                            for o in orders if o.is_executed]
        SNAP['trades'] = [(t.type, float(t.entry_price), float(t.exit_price), float(t.qty), int(t.opened_at),
                           int(t.closed_at), float(t.pnl)) for t in store.completed_trades.trades]
        SNAP['wallet_balance'] = float(selectors.get_exchange(self.exchange).wallet_balance)
        SNAP['liquidations'] = store.app.total_liquidations
        SNAP['position_qty'] = float(self.position.qty)


def session(strategy, cndl, fast, leverage, mode):
    jh.CACHED_CONFIG.clear()
    SNAP.clear()
    config = {'starting_balance': 10_000, 'fee': 0, 'type': 'futures', 'futures_leverage': leverage,
              'futures_leverage_mode': mode, 'exchange': 'Sandbox', 'warm_up_candles': 0}
    routes = [{'exchange': 'Sandbox', 'strategy': strategy, 'symbol': 'BTC-USDT', 'timeframe': '5m'}]
    data = {'Sandbox-BTC-USDT': {'exchange': 'Sandbox', 'symbol': 'BTC-USDT', 'candles': cndl.copy()}}
    research.backtest(config, routes, [], data, fast_mode=fast)
    return dict(SNAP)


def resting_fills_per_trading_candle(snapshot, minutes=5):
    spans = {}
    for side, typ, qty, price, at in snapshot['executed']:
        if typ == 'MARKET':
            continue
        span = (at - T0 - 1) // (minutes * 60_000)
        spans[span] = spans.get(span, 0) + 1
    return max(spans.values()) if spans else 0


def report(name, normal, fast):
    differs = [k for k in normal if normal[k] != fast[k]]
    print(f'--- {name}')
    print('  hypothesis on the NORMAL run: liquidations =', normal['liquidations'],
          ', max resting-order fills in one trading candle =', resting_fills_per_trading_candle(normal))
    for k in normal:
        mark = '  !=' if k in differs else '  =='
        print(f'{mark} {k}: normal={normal[k]}  fast={fast[k]}')
    hypothesis = normal['liquidations'] == 0 and resting_fills_per_trading_candle(normal) <= 1
    return hypothesis and bool(differs)


# ----------------------------------------------------------------------------------------------------------------
# V1: phantom liquidation
class StopEntry(Base):
    def go_long(self):
        # price is 95: a buy above the market is a STOP order resting at 100
        self.buy = 1, 100


v1 = candles(
    [(95, 95, 95, 95)] * 5 +                       # 1st trading candle: flat; the strategy places the stop-buy at its close
    [(95, 95, 95, 89),                             # minute 6: dip to 89 (no position yet)
     (95, 101, 101, 95),                           # minute 7: rally through 100 -> the stop-buy fills, long 1 @ 100
     (101, 101, 101, 101)] + [(101, 101, 101, 101)] * 2 +
    [(101, 101, 101, 101)] * 5
)
# leverage 10, isolated: liquidation price of the long = 100 * (1 - 0.1 + 0.004) = 90.4, never touched after the entry
n1 = session(StopEntry, v1, fast=False, leverage=10, mode='isolated')
f1 = session(StopEntry, v1, fast=True, leverage=10, mode='isolated')
bad1 = report('V1 phantom liquidation (futures, isolated x10, 5m)', n1, f1)


# ----------------------------------------------------------------------------------------------------------------
# V2: 1m candles in the store are not the same
class EntryFromLast1mOpen(Base):
    def go_long(self):
        last_1m_open = self.get_candles(self.exchange, self.symbol, '1m')[-1][1]
        self.buy = 1, last_1m_open - 1


v2 = candles(
    [(100, 100, 100, 100)] * 3 + [(100, 102, 102, 100), (103, 103, 103, 103)] +      # 5th minute opens 103 after a close of 102
    [(103, 103, 103, 103), (103, 101, 103, 100.5), (101, 103, 103, 101), (103, 103, 103, 103), (103, 103, 103, 103)] +
    [(103, 103, 103, 103)] * 5
)
n2 = session(EntryFromLast1mOpen, v2, fast=False, leverage=2, mode='cross')
f2 = session(EntryFromLast1mOpen, v2, fast=True, leverage=2, mode='cross')
bad2 = report('V2 stored 1m candles differ (futures, cross, 5m)', n2, f2)

print()
if bad1:
    print('VIOLATION V1: the normal simulation fills one resting order per trading candle and has no liquidation, yet the fast '
          'simulator liquidates the position (extra executed MARKET order, a closed trade and a lower final balance).')
if bad2:
    print('VIOLATION V2: same candles, same strategy, one fill: the executed price differs because the fast simulator '
          'stores raw (not jump-fixed) 1m candles for the minutes 2..n of a chunk.')
sys.exit(1 if (bad1 or bad2) else 0)
