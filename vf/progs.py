"""Program (strategy script) and candle alphabets shared by the Engine A checks."""
import itertools

# candle shapes (gap, dclose, upper wick, lower wick) in ticks, simplest first
SHAPES = {
    'U1': (0, 1, 0, 0), 'D1': (0, -1, 0, 0), 'U2w': (0, 2, 1, 1), 'D2w': (0, -2, 1, 1),
    'GU': (2, 0, 0, 0), 'GD': (-2, 0, 0, 0), 'DOJI': (0, 0, 1, 1), 'FLAT': (0, 0, 0, 0),
    'DOJI2': (0, 0, 2, 2),
    'U3': (0, 3, 0, 1), 'D3': (0, -3, 1, 0), 'GU2': (3, -1, 0, 0), 'GD2': (-3, 1, 0, 0),
}
SIGMA6 = ['U1', 'D1', 'U2w', 'D2w', 'GU', 'GD']
SIGMA7 = SIGMA6 + ['FLAT']
SIGMA8 = SIGMA6 + ['DOJI', 'FLAT']
SIGMA12 = SIGMA8 + ['U3', 'D3', 'GU2', 'GD2']


def words(sigma, n):
    for w in itertools.product(sigma, repeat=n):
        yield w


def shapes(word):
    return [SHAPES[x] for x in word]


def programs(tick, unit, kind='futures'):
    """Deviation-ordered menu of scripts. Each is (name, spec)."""
    base = {'tick': tick, 'unit': unit}
    P = []
    # default: long limit entry one tick below, full-size stop and target two ticks away
    P.append(('long-limit-sl2-tp2', dict(base, side='long', enter={'when': 'flat', 'legs': [[1, -1]]},
                                          on_open={'sl': 'all', 'tp': 'all', 'sl_d': 2, 'tp_d': 2}, cancel_entry=True)))
    P.append(('long-stop-entry-ladder', dict(base, side='long', enter={'when': 'flat', 'legs': [[2, 1]]},
                                              on_open={'sl': [[2, 2]], 'tp': [[1, 1], [1, 2]]}, cancel_entry=True)))
    P.append(('long-2leg-keep-entry', dict(base, side='long', enter={'when': 'flat', 'legs': [[1, -1], [1, -2]]},
                                            on_open={'sl': 'all', 'tp': 'all', 'sl_d': 3, 'tp_d': 1},
                                            on_increased={'sl': 'all', 'tp': 'all', 'sl_d': 3, 'tp_d': 1}, cancel_entry=False)))
    P.append(('long-2leg-wide-keep-entry', dict(base, side='long', enter={'when': 'flat', 'legs': [[1, -1], [1, -3]]},
                                                 on_open={'sl': 'all', 'tp': 'all', 'sl_d': 4, 'tp_d': 2},
                                                 on_increased={'sl': 'all', 'tp': 'all', 'sl_d': 4, 'tp_d': 2}, cancel_entry=False)))
    # exits declared once and never re-declared: a later entry fill leaves every other resting order in place
    P.append(('long-2leg-static-exits', dict(base, side='long', enter={'when': 'flat', 'legs': [[1, -1], [1, -2]]},
                                              on_open={'sl': [[2, 4]], 'tp': [[1, 1]]} if kind == 'futures' else {'tp': [[1, 1]]}, cancel_entry=False)))
    # half of the position leaves through an exit a hair above the entry price (routed to MARKET at a price the candle may never
    # trade: executed by the end-of-minute flush); its handler then places a stop one tick below the entry
    P.append(('long-limit-near-market-tp', dict(base, side='long', enter={'when': 'flat', 'legs': [[2, -1]]},
                                                 on_open={'sl': [[2, 1]], 'tp': [[1, 0.005], [1, 3]]} if kind == 'futures' else {'tp': [[1, 0.005], [1, 3]]},
                                                 on_reduced={'sl': 'all', 'sl_d': 1} if kind == 'futures' else None,
                                                 cancel_entry=True)))
    # two entry legs at ONE price (the second one is hit at the open of what is left of the candle after the first fill); the
    # handler of the second fill gets out at market
    P.append(('long-2leg-same-price-liquidate', dict(base, side='long', enter={'when': 'flat', 'legs': [[1, -1], [1, -1]]},
                                                      on_open={'sl': [[1, 3]], 'tp': [[1, 3]]} if kind == 'futures' else {'tp': [[1, 3]]},
                                                      on_increased={'liquidate': True} if kind == 'futures' else None, cancel_entry=True)))
    P.append(('long-3leg-both-sides', dict(base, side='long', enter={'when': 'flat', 'legs': [[1, 1], [1, -2], [1, -1]]},
                                            on_open={'sl': [[1, 6]]} if kind == 'futures' else None, cancel_entry=False)))
    P.append(('long-market-breakeven', dict(base, side='long', enter={'when': 'flat', 'legs': [[2, 0]]},
                                             on_open={'sl': [[2, 2]], 'tp': [[1, 1], [1, 3]]},
                                             on_reduced={'sl': 'breakeven'}, cancel_entry=True)))
    if kind == 'futures':
        P.append(('long-market-scaleout-at-market', dict(base, side='long', enter={'when': 'flat', 'legs': [[2, 0]]},
                                                          on_open={'sl': [[2, 2]], 'tp': [[1, 0], [1, 2]]},
                                                          on_reduced={'sl': 'all', 'sl_d': 0}, cancel_entry=True)))
    else:
        P.append(('long-market-scaleout-at-market', dict(base, side='long', enter={'when': 'flat', 'legs': [[2, 0]]},
                                                          on_open={'tp': [[1, 0]]}, cancel_entry=True)))
    # multi-step histories inside one trade: a partial take-profit whose handler submits a MARKET order (scale back in / get out)
    P.append(('long-market-tp1-reenter', dict(base, side='long', enter={'when': 'flat', 'legs': [[2, 0]]},
                                               on_open={'sl': [[2, 3]], 'tp': [[1, 1], [1, 3]]} if kind == 'futures' else {'tp': [[1, 1], [1, 3]]},
                                               on_reduced={'reenter': [[2, 0]]},
                                               on_increased={'sl': 'all', 'tp': 'all', 'sl_d': 3, 'tp_d': 2} if kind == 'futures' else {'tp': 'all', 'tp_d': 2},
                                               cancel_entry=True)))
    P.append(('long-market-tp1-liquidate', dict(base, side='long', enter={'when': 'flat', 'legs': [[2, 0]]},
                                                 on_open={'sl': [[2, 2]], 'tp': [[1, 1], [1, 3]]} if kind == 'futures' else {'tp': [[1, 1], [1, 3]]},
                                                 on_reduced={'liquidate': True}, cancel_entry=True)))
    if kind == 'futures':
        P.append(('short-limit-2leg', dict(base, side='short', enter={'when': 'flat', 'legs': [[1, 1], [1, 2]]},
                                            on_open={'sl': 'all', 'tp': 'all', 'sl_d': 2, 'tp_d': 2},
                                            on_increased={'sl': 'all', 'tp': 'all', 'sl_d': 2, 'tp_d': 2}, cancel_entry={'after': 2})))
        P.append(('short-stop-entry', dict(base, side='short', enter={'when': 'flat', 'legs': [[1, -1]]},
                                            on_open={'sl': 'all', 'tp': 'all', 'sl_d': 1, 'tp_d': 3}, cancel_entry=True)))
        P.append(('long-at-entry-exits', dict(base, side='long', enter={'when': 'flat', 'legs': [[1, -1]]},
                                               at_entry={'sl': [[1, 2]], 'tp': [[1, 2]]}, update=[{'at': 3, 'sl': 'all', 'sl_d': 1, 'tp': 'keep'}],
                                               cancel_entry=False)))
    return P


def route_follower(tick, unit):
    """second-symbol program: holds a market position without exits and places its stop (one tick below its entry) only when the
    OTHER route opens a position"""
    return ('route-follower', {'tick': tick, 'unit': unit, 'side': 'long', 'enter': {'when': {'at': [0]}, 'legs': [[1, 0]]},
                               'on_route_open': {'sl': 'all', 'sl_d': 1}, 'cancel_entry': True})
