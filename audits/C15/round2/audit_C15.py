"""
C15 second-round audit: counterexamples against the REAL jesse indicator code.

run:  cd /tmp/wtb_C15 && /venv/bin/python audit_C15.py
exit 1 + explanation when a violation is observed, exit 0 otherwise.
"""
import os
import sys
import warnings

HERE = os.path.dirname(os.path.abspath(__file__))
sys.path.insert(0, HERE)          # the worktree copy of jesse, not the installed one
warnings.filterwarnings('ignore')

import numpy as np
import jesse
import jesse.indicators as ta

assert os.path.abspath(jesse.__file__).startswith(HERE), jesse.__file__

T0 = 1609459200000


def candles_from_close(c, spread=0.0, seed=0):
    """[timestamp, open, close, high, low, volume] rows; spread=0 -> high/low touch open/close"""
    r = np.random.default_rng(seed)
    c = np.asarray(c, dtype=float)
    n = len(c)
    o = np.roll(c, 1)
    o[0] = c[0]
    h = np.maximum(o, c) * (1 + spread * r.uniform(0, 1, n))
    l = np.minimum(o, c) * (1 - spread * r.uniform(0, 1, n))
    v = r.uniform(1, 100, n)
    return np.column_stack([T0 + 60000 * np.arange(n), o, c, h, l, v])


def constant(n, price):
    c = np.full(n, float(price))
    return np.column_stack([T0 + 60000 * np.arange(n), c, c, c, c, np.full(n, 5.0)])


def walk_with_flat_stretch(n=200, start=60, length=45, seed=1):
    r = np.random.default_rng(seed)
    c = 100.3 * np.exp(np.cumsum(r.normal(0, 0.004, n)))
    c[start:start + length] = c[start]           # an illiquid stretch: nothing trades away from one price
    C = candles_from_close(c, spread=0.0)
    C[start + 1:start + length, 1] = c[start]    # open == close == high == low inside the stretch
    C[start + 1:start + length, 3] = c[start]
    C[start + 1:start + length, 4] = c[start]
    return C, start, length


findings = []


def finding(title, lines):
    findings.append(title)
    print('VIOLATION: ' + title)
    for ln in lines:
        print('    ' + ln)
    print()


# ---------------------------------------------------------------------------------------------
# A. CCI of a flat window is +-66.67 instead of 0
# ---------------------------------------------------------------------------------------------
def check_cci():
    lines = []
    # A1: constant candle series, default period
    C = constant(120, 100.3)
    got = ta.cci(C, 14, sequential=True)
    nz = got[13:][got[13:] != 0]
    if len(nz):
        lines.append(f'constant price 100.3, cci(period=14): {len(nz)} of {len(got) - 13} defined values are '
                     f'{nz[0]!r} (definition / the code\'s own "md == 0 -> 0" convention: 0.0)')
    # how many of the periods 2..60 are affected for a few constant prices
    for price in (0.1, 100.3, 29123.45, 1.234e-05):
        bad = {}
        for p in range(2, 61):
            r = ta.cci(constant(130, price), p, sequential=True)[p - 1:]
            if np.any(r != 0):
                bad[p] = float(r[r != 0][0])
        if bad:
            vals = sorted(set(round(v, 4) for v in bad.values()))
            lines.append(f'constant price {price}: {len(bad)} of the 59 periods 2..60 give a non-zero CCI, values {vals}')
    # A2: a random walk with an illiquid (flat) stretch: the value inside the stretch
    C, start, length = walk_with_flat_stretch()
    p = 20
    got = ta.cci(C, p, sequential=True)
    inside = got[start + p:start + length]           # windows that lie completely inside the stretch (candle `start` still opens elsewhere)
    if np.any(inside != 0):
        lines.append(f'random walk with {length} unchanged candles, cci(period={p}): inside the stretch the '
                     f'indicator reads {sorted(set(np.round(inside, 4)))} while every price of the window is identical')
    if lines:
        finding('CCI of a flat window is +-66.67 (= 1/0.015), sign arbitrary, instead of 0', lines)


# ---------------------------------------------------------------------------------------------
# B. stoch / stochf divide 0/0 on a flat window: NaN, and NaN for ever with a recursive smoothing
# ---------------------------------------------------------------------------------------------
def check_stoch():
    lines = []
    C = constant(120, 100.3)
    k, d = ta.stoch(C, 14, 3, 0, 3, 0, sequential=True)
    if np.isnan(k[20:]).any():
        lines.append(f'constant price 100.3, stoch(14,3,3): %K is NaN on {int(np.isnan(k[20:]).sum())} of 100 '
                     f'candles after warm-up (a bounded oscillator must lie in [0, 100]; willr returns 0 here)')
    fk = ta.stochf(C, 5, 3, 0, sequential=True).k
    if np.isnan(fk[10:]).any():
        lines.append(f'constant price 100.3, stochf(5,3): %K NaN on {int(np.isnan(fk[10:]).sum())} of 110 candles')
    C, start, length = walk_with_flat_stretch()
    end = start + length
    for matype, name in ((1, 'ema'), (12, 'wilders'), (3, 'dema')):
        k, d = ta.stoch(C, 14, 3, matype, 3, matype, sequential=True)
        tail = k[end + 30:]                       # 30+ candles after the market started to move again
        if np.isnan(tail).all():
            lines.append(f'random walk with {length} unchanged candles (index {start}..{end - 1}), '
                         f'stoch(14, slowk_matype={matype} [{name}]): %K is NaN on ALL {len(tail)} candles from '
                         f'index {end + 30} to the end, although the raw %K is defined again from index {end + 1}')
    k0 = ta.stoch(C, 14, 3, 0, 3, 0, sequential=True).k
    if np.isnan(k0[start + 14:end + 2]).any() and not np.isnan(k0[end + 5:]).any():
        lines.append('(with the default SMA smoothing the NaN stay confined to the stretch: '
                     f'{int(np.isnan(k0[30:]).sum())} candles)')
    if lines:
        finding('stoch/stochf return NaN (0/0) when high == low over the look-back; with a recursive '
                'slowk/slowd average one flat window turns the whole remaining series into NaN', lines)


# ---------------------------------------------------------------------------------------------
# C. mfi on fewer candles than the period: more values than candles, and they are numbers
# ---------------------------------------------------------------------------------------------
def check_mfi():
    lines = []
    r = np.random.default_rng(3)
    C = candles_from_close(100 * np.exp(np.cumsum(r.normal(0, 0.01, 40))), spread=0.003)
    for n in (1, 5, 13):
        seq = ta.mfi(C[:n], 14, sequential=True)
        last = ta.mfi(C[:n], 14, sequential=False)
        if len(seq) != n or not np.isnan(last):
            lines.append(f'{n} candles, period 14: sequential output has {len(seq)} entries '
                         f'({int((~np.isnan(seq)).sum())} of them numbers), sequential=False returns {last!r}; '
                         f'rsi/cci/willr/atr return {n} NaN / NaN here')
    seq = ta.mfi(C, 14, sequential=True)
    if not np.isnan(seq[13]):
        lines.append(f'40 candles, period 14: index 13 already carries {seq[13]!r} although only 13 money flows '
                     f'exist there (flow 0 needs the typical price before the first candle; it is counted as 0)')
    if lines:
        finding('mfi with fewer candles than period returns a series of the wrong length filled with numbers', lines)


# ---------------------------------------------------------------------------------------------
# D. donchian on fewer candles than the period: sequential raises, non-sequential invents a channel
# ---------------------------------------------------------------------------------------------
def check_donchian():
    lines = []
    r = np.random.default_rng(4)
    C = candles_from_close(100 * np.exp(np.cumsum(r.normal(0, 0.01, 10))), spread=0.003)
    try:
        ta.donchian(C, 20, sequential=True)
        seq = 'returned'
    except Exception as e:
        seq = f'raises {type(e).__name__}: {e}'
    ns = ta.donchian(C, 20, sequential=False)
    if seq != 'returned' or not np.isnan(ns.upperband):
        lines.append(f'10 candles, period 20: sequential=True {seq}; sequential=False returns upper={ns.upperband!r} '
                     f'(the 10-candle channel) where no 20-candle window exists')
    if lines:
        finding('donchian with fewer candles than period: exception in sequential mode, a shorter channel '
                'passed off as the period-20 channel otherwise', lines)


if __name__ == '__main__':
    print('jesse imported from', os.path.dirname(jesse.__file__))
    print()
    check_cci()
    check_stoch()
    check_mfi()
    check_donchian()
    if findings:
        print(f'{len(findings)} violation(s) of C15 observed')
        sys.exit(1)
    print('no violation observed')
    sys.exit(0)
