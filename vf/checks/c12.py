"""C12 - the fast simulator reproduces the normal simulation when fills are unambiguous (differential, Engine A).

Every (candle word x program x configuration) is run twice through the real research.backtest - fast_mode False and True -
and, whenever the NORMAL run has at most one resting fill per trading-candle span and no liquidation, the executed orders
(side, type, qty, price, fill minute), the closed trades and the final balances must be identical.
"""
import itertools

from .. import core, session as S, progs, fills
from ..core import Violation

ID = 'C12'
T = {'1m': 1, '3m': 3, '5m': 5, '15m': 15, '30m': 30, '45m': 45, '1h': 60}

MIN = {'U': (0, 1, 0, 0), 'D': (0, -1, 0, 0), 'u': (0, 1, 1, 1), 'd': (0, -1, 1, 1), 'o': (0, 0, 1, 1),
       'G': (-1, 2, 0, 0), 'g': (1, -2, 0, 0),
       'J': (2, -1, 0, 0)}     # opens two ticks above the previous close and falls back one: falling by its own open, rising from the previous close     # G: opens one tick below the previous close and rallies one tick above it


def block(pattern, k):
    """k-minute block patterns with at most one tick of movement per minute"""
    if pattern == 'up':
        return [MIN['U']] * k
    if pattern == 'down':
        return [MIN['D']] * k
    if pattern == 'spike':
        h = k // 2
        return [MIN['U']] * h + [MIN['D']] * h + [MIN['o']] * (k - 2 * h)
    if pattern == 'dip':
        h = k // 2
        return [MIN['D']] * h + [MIN['U']] * h + [MIN['o']] * (k - 2 * h)
    if pattern == 'flat':
        return [MIN['o']] * k
    if pattern == 'gz':
        return [MIN['G'] if i % 2 == 0 else MIN['g'] for i in range(k)]
    if pattern == 'zg':
        return [MIN['g'] if i % 2 == 0 else MIN['G'] for i in range(k)]
    if pattern == 'zig':
        return [MIN['u'] if i % 2 == 0 else MIN['d'] for i in range(k)]
    raise ValueError(pattern)


def programs(tick, unit, tf, kind):
    if kind == 'futures-iso':
        kind = 'futures'
    w = T[tf] + 3
    out = []
    sides = ('long', 'short') if kind == 'futures' else ('long',)
    for side in sides:
        for ename, legs in (('market', [[1, 0]]), ('limit', [[1, -1 if side == 'long' else 1]]), ('stop', [[1, 1 if side == 'long' else -1]])):
            out.append(('%s-%s-w%d' % (side, ename, w),
                        {'tick': tick, 'unit': unit, 'side': side, 'enter': {'when': 'flat', 'legs': legs},
                         'on_open': {'sl': 'all', 'tp': 'all', 'sl_d': w, 'tp_d': w}, 'cancel_entry': True}))
    return out


def react_programs(tick, unit, tf, kind):
    if kind == 'futures-iso':
        return []
    """multi-step histories inside one trade: a partial take-profit two ticks away fills as a resting order somewhere inside a
    trading candle and its handler submits a MARKET order (get out / scale back in, then re-bracket far away)"""
    w = T[tf] + 3
    out = []
    for side in (('long', 'short') if kind == 'futures' else ('long',)):
        b = {'tick': tick, 'unit': unit, 'side': side, 'enter': {'when': 'flat', 'legs': [[2, 0]]}, 'cancel_entry': True}
        oo = {'tp': [[1, 2], [1, w]]}
        if kind == 'futures':
            oo['sl'] = [[2, w]]
            out.append(('%s-tp1-liquidate-w%d' % (side, w), dict(b, on_open=oo, on_reduced={'liquidate': True})))
        oi = {'tp': 'all', 'tp_d': w}
        if kind == 'futures':
            oi.update({'sl': 'all', 'sl_d': w})
        out.append(('%s-tp1-reenter-w%d' % (side, w), dict(b, on_open=oo, on_reduced={'reenter': [[1, 0]]}, on_increased=oi)))
        # a resting entry fills somewhere inside a trading candle and its handler declares an exit AT the fill price (routed to market)
        sg = -1 if side == 'long' else 1
        oo2 = {'tp': [[1, 0], [1, w]]}
        if kind == 'futures':
            oo2['sl'] = [[2, w]]
        out.append(('%s-limit-open-tp-at-market-w%d' % (side, w), dict(b, enter={'when': 'flat', 'legs': [[2, sg]]}, on_open=oo2)))
    # entries decided by the shape of the completed trading candle (open vs close, high vs previous high)
    ex0 = {'tp': 'all', 'tp_d': w}
    if kind == 'futures':
        ex0.update({'sl': 'all', 'sl_d': w})
    out.append(('long-market-if-bullish-w%d' % w, {'tick': tick, 'unit': unit, 'side': 'long', 'enter': {'when': 'bullish', 'legs': [[1, 0]]}, 'on_open': ex0, 'cancel_entry': True}))
    out.append(('long-market-if-bullish1m-w%d' % w, {'tick': tick, 'unit': unit, 'side': 'long', 'enter': {'when': 'bullish1m', 'legs': [[1, 0]]}, 'on_open': ex0, 'cancel_entry': True}))
    out.append(('long-market-if-breakout-w%d' % w, {'tick': tick, 'unit': unit, 'side': 'long', 'enter': {'when': 'breakout', 'legs': [[1, 0]]}, 'on_open': ex0, 'cancel_entry': True}))
    # the exit is placed at the first trading-candle close at which the framework lists no entry order any more
    out.append(('long-market-tp-when-no-entry-orders-w%d' % w, {'tick': tick, 'unit': unit, 'side': 'long', 'enter': {'when': 'flat', 'legs': [[1, 0]]},
                                                                'tp_when_no_entry_orders': 2, 'cancel_entry': True}))
    # an entry that is kept across trading candles, and a stop that is moved at every trading-candle close
    b = {'tick': tick, 'unit': unit, 'side': 'long'}
    ex = {'tp': 'all', 'tp_d': w}
    if kind == 'futures':
        ex.update({'sl': 'all', 'sl_d': w})
    out.append(('long-stop2-keep-w%d' % w, dict(b, enter={'when': 'flat', 'legs': [[1, 2]]}, on_open=ex, cancel_entry=False)))
    if kind == 'futures':
        out.append(('long-market-trail-w%d' % w, dict(b, enter={'when': 'flat', 'legs': [[1, 0]]}, on_open=ex, cancel_entry=True,
                                                     update=[{'at': i, 'sl': 'all', 'sl_d': w - 1, 'tp': 'keep'} for i in range(1, 12)])))
    return out


def all_programs(tick, unit, tf, kind, npr, quick=False):
    P = programs(tick, unit, tf, kind)[:npr]
    if tf != '1m':
        R = react_programs(tick, unit, tf, kind)
        if quick and T[tf] >= 15:
            R = R[::2]          # long sessions: every second reacting program in the quick tier
        P = P + R
    return P


def configs(quick):
    """(trading tf, data routes, kind, word generator, number of programs used)"""
    out = []
    P4 = ['up', 'down', 'gz', 'zg']
    P4b = ['up', 'down', 'spike', 'dip']
    P5 = P4 + ['spike', 'dip', 'zig']
    if quick:
        out.append(('1m', [], 'futures', ('minutes', 'UDu', 5), 6))
        out.append(('1m', [], 'spot', ('minutes', 'UDu', 5), 3))
        out.append(('3m', [], 'futures', ('minutes', 'UDGJ', 5), 6))
        out.append(('3m', [], 'spot', ('minutes', 'UDud', 5), 3))
        out.append(('5m', [], 'futures', ('blocks', 5, P4, 3), 6))
        out.append(('5m', [], 'spot', ('blocks', 5, P4b, 3), 3))
        out.append(('3m', [['BTC-USDT', '15m']], 'futures', ('blocks', 3, P4, 5), 3))
        out.append(('15m', [['BTC-USDT', '5m']], 'futures', ('blocks', 5, P4[:3], 6), 3))
        out.append(('15m', [], 'spot', ('blocks', 5, P4[:3], 6), 3))
        out.append(('30m', [['BTC-USDT', '1h']], 'futures', ('blocks', 15, P4, 4), 3))
        out.append(('1h', [], 'futures', ('blocks', 15, P4[:3], 4), 3))
        # isolated margin, 50x: liquidations are possible (sessions in which the NORMAL run liquidates are outside the property)
        out.append(('5m', [], 'futures-iso', ('minutes', 'UD', 8), 6))
        # route timeframes that do not divide each other (chunk = gcd, not the smaller one)
        out.append(('5m', [['BTC-USDT', '3m']], 'futures', ('blocks', 5, P4b, 3), 3))
        out.append(('45m', [['BTC-USDT', '30m']], 'futures', ('blocks', 15, P4b[:3], 6), 3))
        return out
    for kind, n in (('futures', 6), ('spot', 3)):
        out.append(('1m', [], kind, ('minutes', 'UDud', 7), n))
        out.append(('3m', [], kind, ('minutes', 'UDuGgJ', 6), n))
        out.append(('5m', [], kind, ('blocks', 5, P5, 4), n))
    out.append(('5m', [], 'futures-iso', ('minutes', 'UD', 10), 6))
    out.append(('3m', [['BTC-USDT', '15m']], 'futures', ('blocks', 3, P5, 5), 6))
    out.append(('15m', [['BTC-USDT', '5m']], 'futures', ('blocks', 5, P4, 6), 6))
    out.append(('15m', [], 'spot', ('blocks', 5, P4, 6), 3))
    out.append(('30m', [['BTC-USDT', '1h']], 'futures', ('blocks', 15, P4, 4), 6))
    out.append(('1h', [], 'futures', ('blocks', 15, P5, 4), 6))
    out.append(('5m', [['BTC-USDT', '1m']], 'futures', ('blocks', 5, P4, 3), 6))
    out.append(('1h', [['BTC-USDT', '15m']], 'spot', ('blocks', 15, P4, 4), 3))
    out.append(('5m', [['BTC-USDT', '3m']], 'futures', ('blocks', 5, P5, 4), 6))
    out.append(('45m', [['BTC-USDT', '30m']], 'futures', ('blocks', 15, P4b, 6), 6))
    out.append(('45m', [['BTC-USDT', '1h']], 'spot', ('blocks', 15, P4b, 8), 3))
    return out


def words(gen):
    if gen[0] == 'minutes':
        for w in itertools.product(gen[1], repeat=gen[2]):
            yield [MIN[c] for c in w], ''.join(w)
    else:
        _, k, pats, n = gen
        for w in itertools.product(pats, repeat=n):
            mins = []
            for p in w:
                mins += block(p, k)
            yield mins, '-'.join(w)


def build(minutes, tf, droutes, kind, spec, emb, fast, rem=0):
    base, tick, unit = emb
    span = T[tf]
    for d in droutes:
        span = span * T[d[1]] // __import__('math').gcd(span, T[d[1]])      # lcm: a multiple of every route timeframe
    lead = [progs.SHAPES['FLAT']] * T[tf]
    w = lead + list(minutes)
    while len(w) % span:
        w.append(progs.SHAPES['FLAT'])
    # a session that does not end on a trading-candle boundary: rem trailing minutes (rising, so resting orders can still fill)
    w += [MIN['U']] * rem
    rows = S.make_candles(w, base + 40 * tick, tick)
    iso = kind == 'futures-iso'
    if iso:
        kind = 'futures'
    cfg = {'type': kind, 'fee': 0.001 if kind == 'futures' else 0.0, 'leverage': 2, 'balance': 100 * (base + 40 * tick) * unit}
    if iso:
        cfg.update({'leverage': 50, 'mode': 'isolated'})
    return {'cfg': cfg, 'routes': [{'symbol': 'BTC-USDT', 'timeframe': tf, 'spec': spec}], 'data_routes': droutes,
            'candles': {'BTC-USDT': rows.tolist()}, 'fast': fast, 'observe': 0}


def summary(r):
    orders = S.index_trace(r['trace'])
    ex = []
    for o in sorted(orders.values(), key=lambda o: (o['final_idx'] or 0)):
        if o['final'] == 'exec':
            ex.append((o['side'], o['type'], round(o['qty'], 9), o['price'], int((o['final_now'] - S.TS0) // 60000)))
    e = r['end']
    trades = [(t['type'], round(t['qty'], 9), t['entry'], t['exit'], t['opened_at'], t['closed_at']) for t in e['trades']]
    assets = {k: round(v, 9) for k, v in e['assets'].items()}
    return ex, trades, assets, e['liquidations']


def _diff(args):
    minutes, wname, tf, droutes, kind, pname, spec, emb = args[:8]
    rem = args[8] if len(args) > 8 else 0
    ident = {'word': wname, 'tf': tf, 'data_routes': droutes, 'kind': kind, 'program': pname, 'embedding': list(emb), 'rem': rem}
    out = {'viols': [], 'class': 'compared'}
    ra = S.run_session(build(minutes, tf, droutes, kind, spec, emb, False, rem))
    rb = S.run_session(build(minutes, tf, droutes, kind, spec, emb, True, rem))
    if ra['error'] or rb['error']:
        if bool(ra['error']) != bool(rb['error']) or (ra['error'] and ra['error'][0] != rb['error'][0]):
            out['viols'].append(Violation('one-simulator-raises', {'normal': ra['error'][0] if ra['error'] else None, 'fast': rb['error'][0] if rb['error'] else None},
                                          ident, 'normal: %r fast: %r' % (ra['error'] and ra['error'][:2], rb['error'] and rb['error'][:2])).to_json())
        out['class'] = 'raised'
        return out
    a, b = summary(ra), summary(rb)
    n = T[tf]
    spans = {}
    for (side, typ, q, p, m) in a[0]:
        if typ != 'MARKET':
            spans[m // n] = spans.get(m // n, 0) + 1
    if any(v > 1 for v in spans.values()) or a[3]:
        out['class'] = 'ambiguous'
        return out
    if b[3] and not a[3]:
        out['viols'].append(Violation('fast-liquidates-alone', {'tf': tf}, ident,
                                      'the normal simulation has no liquidation, the fast one has %d (executed orders: normal %r, fast %r)' % (b[3], a[0][-3:], b[0][-3:])).to_json())
        return out
    if not a[0]:
        out['class'] = 'no-fills'
    for name, x, y in (('executed-orders', a[0], b[0]), ('closed-trades', a[1], b[1]), ('final-balances', a[2], b[2])):
        if x != y:
            only_a = [z for z in x if z not in y][:3] if isinstance(x, list) else x
            only_b = [z for z in y if z not in x][:3] if isinstance(y, list) else y
            out['viols'].append(Violation('fast-differs', {'what': name, 'tf': tf, 'data_routes': len(droutes)}, ident,
                                          '%s differ: normal has %r, fast has %r' % (name, only_a, only_b)).to_json())
            break
    return out


def run(ctx):
    cov = ctx.coverage
    emb = ctx.embedding
    jobs = []
    for tf, droutes, kind, gen, npr in configs(ctx.quick):
        P = all_programs(emb[1], emb[2], tf, kind, npr, ctx.quick)
        for minutes, wname in words(gen):
            for pname, spec in P:
                jobs.append((minutes, wname, tf, droutes, kind, pname, spec, emb))
    # sessions that end inside a trading candle (the fast simulator's last chunk is shorter): 1 and tf-1 trailing minutes
    for tf, droutes, kind, gen, npr in configs(ctx.quick):
        if tf not in ('3m', '5m', '15m') or (ctx.quick and droutes):
            continue
        P = all_programs(emb[1], emb[2], tf, kind, 3, ctx.quick)
        if ctx.quick:       # quick tier: the first two letters / block patterns of the configuration's alphabet
            gen = (gen[0], gen[1][:2], gen[2]) if gen[0] == 'minutes' else (gen[0], gen[1], gen[2][:2], gen[3])
        for minutes, wname in words(gen):
            for pname, spec in P:
                for rem in (1, T[tf] - 1):
                    jobs.append((minutes, wname, tf, droutes, kind, pname, spec, emb, rem))
    # micro-priced and very expensive symbols: the 3m futures configuration again on each extreme scale
    for sc in core.SCALES:
        tf, droutes, kind, gen, npr = [c for c in configs(ctx.quick) if c[0] == '3m' and c[2] == 'futures' and not c[1]][0]
        for minutes, wname in words(('minutes', 'UDG', 6) if ctx.quick else gen):
            for pname, spec in programs(sc[1], sc[2], tf, kind)[:3]:
                jobs.append((minutes, wname, tf, droutes, kind, pname, spec, sc))
    res = core.pmap(_diff, jobs, chunksize=32)
    sigs = set()
    for j, r in zip(jobs, res):
        ctx.count(r['class'])
        cov['transitions'] += 2 * len(j[0])
        if r['class'] == 'compared':
            cov['distinct_nontrivial'] += 1
        for v in r['viols']:
            v = Violation.from_json(v)
            if v.sigkey() in sigs:
                ctx.total_violations += 1
                continue
            sigs.add(v.sigkey())
            ctx.add(v)
    cov['states'] = len(jobs)
    cov['traces_validated_against_impl'] = 2 * len(jobs)
    cov['evaluations'] = len(jobs)
    cov['rule'] = ('all minute/block words x entry styles x configurations, each run in both simulators; non-trivial = the precondition held '
                   '(<=1 resting fill per trading-candle span, no liquidation) AND at least one order was executed')
    cov['bounds'] = {'configs': [[tf, dr, kind, list(map(str, gen)), n] for tf, dr, kind, gen, n in configs(ctx.quick)]}
    ctx.sample({'word': jobs[0][1], 'tf': jobs[0][2], 'kind': jobs[0][4], 'program': jobs[0][5]})
    ctx.sample({'word': jobs[-1][1], 'tf': jobs[-1][2], 'kind': jobs[-1][4], 'program': jobs[-1][5]})
    ctx.assumptions += ['exits are placed timeframe+3 ticks from the entry and minutes move at most one tick, so a trading candle cannot reach both',
                        'session lengths are multiples of every route timeframe (the fast simulator requires it, see C07 findings)']


def replay(case, ctx):
    emb = tuple(case.get('embedding') or ctx.embedding)
    for tf, droutes, kind, gen, npr in configs(False) + configs(True):
        if tf == case['tf'] and droutes == case['data_routes'] and kind == case['kind']:
            for minutes, wname in words(gen):
                if wname == case['word']:
                    P = dict(all_programs(emb[1], emb[2], tf, kind, 99))
                    r = _diff((minutes, wname, tf, droutes, kind, case['program'], P[case['program']], emb, case.get('rem', 0)))
                    return [Violation.from_json(v) for v in r['viols']]
    return []
