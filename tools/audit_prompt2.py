import json,sys,subprocess
pid, wt = sys.argv[1], sys.argv[2]
by=json.load(open('/tmp/already.json'))
base=subprocess.run(['/venv/bin/python','/verif/tools/audit_prompt.py',pid,wt],capture_output=True,text=True).stdout
extra="\nSECOND AUDIT ROUND. An earlier audit of this property already produced the findings below; do NOT report them again (or variants of them) - look for something DIFFERENT, in corners they do not touch:\n"+'\n'.join('- '+x for x in by.get(pid,[]))+"\n"
print(base.replace("HOW TO WORK", extra+"\nHOW TO WORK",1))
