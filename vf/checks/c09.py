"""C09 - isolated-margin liquidation happens exactly at the liquidation price.

Engine C: the price formulas for every leverage 1..125, long and short, on real Position objects.
Engine A: leverage menu x long/short x single/averaged entries x candle menus built RELATIVE to the position's own liquidation
price (one tick short / exactly touching / crossing / gapping over) at three distances from the entry x protective stop
(none / before / beyond the liquidation price) x isolated / cross / spot x normal / fast.  The oracle is computed from the
trace alone: after each matching phase (minute / chunk), position open and range contains the liquidation price <=> exactly one
reduce-only MARKET fill at the bankruptcy price.
"""
import math

from .. import core, session as S, fills, progs
from ..core import Violation

ID = 'C09'
LEVS_Q = [1, 2, 3, 5, 25, 125]
LEVS_T = [1, 2, 3, 5, 10, 20, 25, 50, 100, 125]


def _formulas(args):
    base, unit = args
    from .. import acct
    out = {'n': 0, 'viols': []}
    for L in range(1, 126):
        api, ex, pos = acct.fresh('futures', 0.001, 1e9, leverage=L, mode='isolated', symbols=('BTC-USDT',), price=base)
        p = pos['BTC-USDT']
        for side, q in (('long', unit), ('short', -unit)):
            for entry in (base, base * 1.2345, base * 0.5):
                out['n'] += 1
                p.qty = q
                p.entry_price = entry
                liq, bk = p.liquidation_price, p.bankruptcy_price
                case = {'formula': True, 'leverage': L, 'side': side, 'entry': entry}
                ok_side = (liq < entry and bk < entry) if side == 'long' else (liq > entry and bk > entry)
                between = (bk < liq < entry) if side == 'long' else (entry < liq < bk)
                if math.isnan(liq) or math.isnan(bk) or not ok_side or (L > 1 and not between):
                    out['viols'].append(Violation('liquidation-price-formula', {'side': side, 'leverage_gt_1': L > 1}, case,
                                                  'leverage %d %s entry %r: liquidation %r, bankruptcy %r' % (L, side, entry, liq, bk)).to_json())
                # a fill at the bankruptcy price must cost exactly the initial margin, entry value / leverage
                want = entry * (1 - 1.0 / L) if side == 'long' else entry * (1 + 1.0 / L)
                if not math.isnan(bk) and abs(bk - want) > 1e-12 * entry:
                    out['viols'].append(Violation('bankruptcy-price-vs-initial-margin', {'side': side}, case,
                                                  'leverage %d %s entry %r: bankruptcy price %r, entry -/+ entry/leverage is %r' % (L, side, entry, bk, want)).to_json())
        p.qty = 0
    # cross and spot: no liquidation price
    for kind, mode in (('futures', 'cross'), ('spot', None)):
        api, ex, pos = acct.fresh(kind, 0.001, 1e9, leverage=3, mode=mode or 'cross', symbols=('BTC-USDT',), price=base)
        p = pos['BTC-USDT']
        p.qty = unit
        p.entry_price = base
        out['n'] += 1
        if not math.isnan(p.liquidation_price):
            out['viols'].append(Violation('liquidation-price-in-cross-or-spot', {'kind': kind}, {'formula': True, 'kind': kind}, 'liquidation price %r' % p.liquidation_price).to_json())
        p.qty = 0
    return out


def spec_for(side, averaged, stop, tick, unit, L, E):
    """stop: None | ('before'|'beyond', ticks from the liquidation price)"""
    sgn = 1 if side == 'long' else -1
    legs = [[1, 0]] if not averaged else [[1, 0], [1, -3 * sgn]]
    spec = {'tick': tick, 'unit': unit, 'side': side, 'enter': {'when': {'at': [0]}, 'legs': legs}, 'cancel_entry': False, 'log_liq': True}
    return spec


def scenario(L, side, averaged, where, dist, stop, kind, mode, fast, emb, tp=None):
    """Two-pass: a calibration run on flat candles yields the position's own liquidation/bankruptcy price; the probe candles are
    then placed relative to it."""
    base, _, unit = emb
    E = base
    tick = E * 1e-4
    sgn = 1 if side == 'long' else -1
    tf = '3m' if fast else '1m'
    n0 = 3 if fast else 1
    spec = spec_for(side, averaged, stop, tick, unit, L, E)
    cfg = {'type': kind, 'fee': 0.001 if kind == 'futures' else 0.0, 'leverage': L, 'mode': mode or 'cross', 'balance': 10 * E * unit}

    def rows(extra):
        r = [[S.TS0 + i * 60000, E, E, E, E, 1.0] for i in range(n0)]
        if averaged and tp == 'same-minute':
            # a quiet phase first (the engine looks at the liquidation price of the un-averaged position), then ONE minute that
            # fills the second leg three ticks away and afterwards a partial take-profit on the other side: qty 1 -> 2 -> 1
            r += [[S.TS0 + (len(r) + i) * 60000, E, E, E, E, 1.0] for i in range(n0)]
            p2, up = E - 3 * sgn * tick, E + 3 * sgn * tick
            r.append([S.TS0 + len(r) * 60000, E, E + sgn * 0.5 * tick, max(p2, up), min(p2, up), 1.0])
        elif averaged:       # a dip/spike that fills the second leg three ticks away, then back to E
            p2 = E - 3 * sgn * tick
            r.append([S.TS0 + len(r) * 60000, E, E, max(E, p2), min(E, p2), 1.0])
        r += [[S.TS0 + (len(r) + i) * 60000] + list(x) + [1.0] for i, x in enumerate(extra)]
        while len(r) % n0:
            r.append([S.TS0 + len(r) * 60000, r[-1][2], r[-1][2], r[-1][2], r[-1][2], 1.0])
        return r

    flat = [(E, E, E, E)] * 3
    case = {'cfg': cfg, 'routes': [{'symbol': 'BTC-USDT', 'timeframe': tf, 'spec': spec}], 'candles': {'BTC-USDT': rows(flat)}, 'fast': fast, 'observe': 0}
    r = S.run_session(case)
    if r['error']:
        return case, r, None
    liqs = [e for e in r['trace'] if e[0] == 'liq']
    if not liqs:
        return case, r, None
    liq, bk = liqs[-1][3], liqs[-1][4]
    cal = [(e[5], e[3], e[4]) for e in liqs]        # (entry price, liquidation price, bankruptcy price) as read in the calibration run
    # the probe run never reads position.liquidation_price itself (a read could refresh state the engine relies on): the oracle
    # follows the entry price through the fills and looks the two prices up in the calibration readings
    spec = dict(spec, log_liq=False)
    if kind != 'futures' or mode != 'isolated':
        # cross / spot have no liquidation price: aim at where the isolated one would be
        liq = E * (1 - sgn * (1.0 / L - 0.004)) if L > 1 else E * (1 - sgn * 0.5)
        bk = liq
    # probe minute: extreme on the losing side relative to the liquidation price
    target = {'short-of': liq + sgn * tick, 'touch': liq, 'cross': liq - sgn * tick, 'gap-over': liq - 3 * sgn * tick}[where]
    target = max(target, tick)
    extra = [(E, E, E, E)] * dist
    if where == 'gap-over':
        o = target
        extra.append((o, o, o, o))                       # whole minute beyond the liquidation price: only the normalised open reaches it
    elif tp == 'partial':
        # the probe minute also reaches a partial take-profit on the profit side (closing one tick into profit): a resting
        # order fills inside the liquidation minute without closing the position
        up = E + sgn * 3 * tick
        extra.append((E, E + sgn * tick, max(E, target, up), min(E, target, up)))
    else:
        extra.append((E, E, max(E, target), min(E, target)))
    extra += [(extra[-1][1],) * 4] * 2
    if tp == 'same-minute':
        spec = dict(spec, on_increased={'tp': [[1, 2 + 1.5]]})
    elif tp:
        spec = dict(spec, on_open={'tp': [[0.5, 2]]})
        if averaged:
            spec['on_increased'] = {'tp': [[1, 2 + 1.5]]}
    if stop:
        # protective stop: declared at entry through on_open
        d = (liq + sgn * stop[1] * tick) if stop[0] == 'before' else (liq - sgn * stop[1] * tick)
        d = max(d, tick / 2)
        spec = dict(spec, on_open=dict(spec.get('on_open') or {}, sl=[[2 if averaged else 1, abs(E - d) / tick]]))
        if averaged:
            spec['on_increased'] = dict(spec.get('on_increased') or {}, sl=[[2, abs(E - d) / tick]])
    case = {'cfg': cfg, 'routes': [{'symbol': 'BTC-USDT', 'timeframe': tf, 'spec': spec}], 'candles': {'BTC-USDT': rows(extra)}, 'fast': fast, 'observe': 0}
    r = S.run_session(case)
    return case, r, (liq, bk, cal)


def _lookup(cal, entry):
    for e, l, b in cal:
        if abs(e - entry) <= 1e-12 * abs(entry):
            return l, b
    e, l, b = cal[0]
    return entry * (l / e), entry * (b / e)


def oracle(case, r, isolated, cal=None):
    """returns (problems, stats)"""
    probs = []
    trace = r['trace']
    orders = S.index_trace(trace)
    ph = fills.phases(trace, case)['BTC-USDT']
    rng = S.normalised_ranges(case['candles']['BTC-USDT'])
    fee = case['cfg']['fee']
    sim = 'fast' if case['fast'] else 'normal'
    # walk the trace: position from fills, liquidation price from 'liq' events
    pos = 0.0
    avg = None
    entry_val = 0.0
    liq = bk = None
    wallet_before = None
    expected = 0
    seen = 0
    phase_of = {}
    for k, (first, last, mlo, mhi) in enumerate(ph):
        for idx in range(first, last + 1):
            phase_of[idx] = k
    starts = {first: k for k, (first, last, mlo, mhi) in enumerate(ph)}
    ends = {last: k for k, (first, last, mlo, mhi) in enumerate(ph)}
    liq_orders = set()
    for idx, ev in enumerate(trace):
        if ev[0] == 'liq' and not cal:
            liq, bk = ev[3], ev[4]
        if ev[0] == 'submit' and ev[3] == 'MARKET' and ev[7] and ev[9] is not None and abs(ev[6] - ev[9]) > 1e-9 * abs(ev[9]) and abs(1 - ev[6] / ev[9]) > 0.00015:
            liq_orders.add(ev[1])      # reduce-only MARKET order priced away from the current price: a force-close
        if ev[0] == 'exec' and not ev[3] and ev[1] in orders:
            o = orders[ev[1]]
            q = o['qty']
            if o['reduce_only'] and abs(q) > abs(pos):
                q = -pos
            if ev[1] in liq_orders:
                seen += 1
                # judged against the phase that just ended
                k = max([kk for e, kk in ends.items() if e < idx] or [-1])
                lo = min(rng[m][0] for m in range(ph[k][2], min(ph[k][3], len(rng) - 1) + 1)) if k >= 0 else None
                hi = max(rng[m][1] for m in range(ph[k][2], min(ph[k][3], len(rng) - 1) + 1)) if k >= 0 else None
                if not isolated:
                    probs.append(('force-close-outside-isolated', {'sim': sim}, 'a force-close order was executed in a %s session' % case['cfg']['type']))
                elif liq is None or k < 0 or not (lo <= liq <= hi):
                    probs.append(('spurious-liquidation', {'sim': sim}, 'force-close although the range [%r, %r] does not contain the liquidation price %r' % (lo, hi, liq)))
                else:
                    if abs(o['price'] - bk) > 1e-9 * abs(bk):
                        probs.append(('liquidation-fill-price', {'sim': sim}, 'force-close filled at %r, bankruptcy price is %r (liquidation price %r)' % (o['price'], bk, liq)))
                    if abs(o['qty']) != abs(pos):
                        probs.append(('liquidation-quantity', {'sim': sim}, 'force-close of %r while the position is %r' % (o['qty'], pos)))
            if pos == 0 or (pos > 0) == (q > 0):      # opening / increasing: the entry price becomes the average of what is held
                avg = o['price'] if pos == 0 else (abs(q) * o['price'] + abs(pos) * avg) / (abs(q) + abs(pos))
            pos += q
            if abs(pos) < 1e-12:
                pos = 0.0
            if cal:
                liq, bk = _lookup(cal, avg) if pos != 0 else (None, None)
        if idx in ends and isolated and pos != 0 and liq is not None:
            k = ends[idx]
            lo = min(rng[m][0] for m in range(ph[k][2], min(ph[k][3], len(rng) - 1) + 1))
            hi = max(rng[m][1] for m in range(ph[k][2], min(ph[k][3], len(rng) - 1) + 1))
            if lo <= liq <= hi:
                expected += 1
                # the very next order event must be the force-close
                nxt = next((e for e in trace[idx + 1:] if e[0] in ('submit', 'hook', 'candle', 'candles')), None)
                if not (nxt and nxt[0] == 'submit' and nxt[3] == 'MARKET' and nxt[7]):
                    probs.append(('missed-liquidation', {'sim': sim, 'touch_exact': liq in (lo, hi)},
                                  'position %r still open after minutes %d..%d whose range [%r, %r] contains the liquidation price %r, but it was not force-closed'
                                  % (pos, ph[k][2], ph[k][3], lo, hi, liq)))
    end = r['end']
    if end:
        if end['liquidations'] != seen:
            probs.append(('liquidation-count', {'sim': sim}, 'total_liquidations %d, force-close fills %d' % (end['liquidations'], seen)))
        for t in end['trades']:
            exits = [oid for oid in t['orders'] if oid in orders and ((orders[oid]['side'] == 'sell') == (t['type'] == 'long'))]
            if t['orders'] and t['orders'][-1] in liq_orders and len(exits) == 1:
                # loses its initial margin plus fees
                L = case['cfg']['leverage']
                want = -(t['qty'] * t['entry'] / L) - fee * t['qty'] * (t['entry'] + t['exit'])
                if abs(t['pnl'] - want) > 1e-9 * max(1.0, abs(want)):
                    probs.append(('liquidation-loss', {'sim': sim}, 'liquidated trade PnL %r, initial margin plus fees is %r' % (t['pnl'], -want)))
                # everything resting cancelled
        if seen:
            act = [i for i, st in enumerate(end['final_statuses']) if st == 'ACTIVE']
            if act:
                probs.append(('orders-survive-liquidation', {'sim': sim}, 'orders %s still active at the end' % act))
    return probs, {'expected_liquidations': expected, 'force_closes': seen}


def _run(args):
    L, side, averaged, where, dist, stop, kind, mode, fast, emb = args[:10]
    tp = args[10] if len(args) > 10 else None
    ident = {'leverage': L, 'side': side, 'averaged': averaged, 'where': where, 'dist': dist, 'stop': stop, 'kind': kind, 'mode': mode, 'fast': fast, 'embedding': list(emb), 'tp': tp}
    out = {'viols': [], 'stats': {}, 'class': ''}
    case, r, lb = scenario(L, side, averaged, where, dist, stop, kind, mode, fast, emb, tp)
    if r['error']:
        out['viols'].append(Violation('unexpected-exception', {'exc': r['error'][0], 'kind': kind}, ident, '%s: %s' % r['error'][:2]).to_json())
        return out
    if lb is None:
        out['viols'].append(Violation('harness-no-position', {}, ident, 'calibration run opened no position').to_json())
        return out
    probs, stats = oracle(case, r, kind == 'futures' and mode == 'isolated', lb[2])
    out['stats'] = stats
    out['class'] = 'liquidated' if stats['force_closes'] else 'survived'
    for clause, sig, msg in probs:
        out['viols'].append(Violation(clause, dict(sig, where=where), ident, msg).to_json())
    return out


def cases(ctx):
    emb = ctx.embedding
    levs = LEVS_Q if ctx.quick else LEVS_T
    for L in levs:
        for side in ('long', 'short'):
            for averaged in (False, True):
                for where in ('short-of', 'touch', 'cross', 'gap-over'):
                    for dist in ((0, 2) if ctx.quick else (0, 1, 2)):
                        for stop in (None, ('before', 2), ('beyond', 2)):
                            for fast in (False, True):
                                yield (L, side, averaged, where, dist, stop, 'futures', 'isolated', fast, emb)
                                if where != 'gap-over' and stop != ('before', 2) and L > 1:
                                    yield (L, side, averaged, where, dist, stop, 'futures', 'isolated', fast, emb, 'partial')
                                if averaged and where != 'gap-over' and stop is None and L > 1:
                                    # increase and partial exit inside one minute, then the approach
                                    yield (L, side, averaged, where, dist, stop, 'futures', 'isolated', fast, emb, 'same-minute')
    if not ctx.quick:
        # every leverage 1..125 at the boundary itself (touch / one tick short), both sides, normal simulator
        for L in range(1, 126):
            for side in ('long', 'short'):
                for where in ('short-of', 'touch'):
                    yield (L, side, False, where, 1, None, 'futures', 'isolated', False, emb)
    for sc in core.SCALES:      # micro-priced and very expensive symbols
        for L in (2, 25):
            for side in ('long', 'short'):
                for where in ('short-of', 'touch', 'cross'):
                    for fast in (False, True):
                        yield (L, side, False, where, 1, None, 'futures', 'isolated', fast, sc)
    for L in (2, 25):
        for side in ('long', 'short'):
            for where in ('touch', 'cross', 'gap-over'):
                for fast in (False, True):
                    yield (L, side, False, where, 1, None, 'futures', 'cross', fast, emb)
                    if side == 'long':
                        yield (L, side, False, where, 1, None, 'spot', None, fast, emb)


def run(ctx):
    cov = ctx.coverage
    emb = ctx.embedding
    r = _formulas((emb[0], emb[2]))
    ctx.count('formula-cases', r['n'])
    sigs = set()

    def take(vs):
        for v in vs:
            v = Violation.from_json(v)
            ctx.count('violation:' + v.clause)
            if v.sigkey() in sigs:
                ctx.total_violations += 1
                continue
            sigs.add(v.sigkey())
            ctx.add(v)
    take(r['viols'])
    allc = list(cases(ctx))
    res = core.pmap(_run, allc, chunksize=16)
    for c, rr in zip(allc, res):
        ctx.count(rr['class'] or 'error')
        for k, v in rr['stats'].items():
            ctx.count(k, v)
        take(rr['viols'])
    cov['states'] = len(allc) + r['n']
    cov['transitions'] = len(allc) * 8 + r['n']
    cov['traces_validated_against_impl'] = 2 * len(allc) + r['n']
    cov['evaluations'] = cov['states']
    cov['distinct_nontrivial'] = cov['outcomes'].get('liquidated', 0)
    cov['rule'] = 'formulas: every leverage 1..125 x side x 3 entries; sessions: the full product of the menus below; non-trivial = sessions in which a force-close happened (the rest show its absence)'
    cov['bounds'] = {'leverages': LEVS_Q if ctx.quick else LEVS_T, 'where': ['short-of', 'touch', 'cross', 'gap-over'], 'distance_from_entry_minutes': [0, 2] if ctx.quick else [0, 1, 2],
                     'stops': [None, 'before(2 ticks)', 'beyond(2 ticks)'], 'accounts': ['isolated', 'cross', 'spot'], 'simulators': ['normal 1m', 'fast 3m']}
    ctx.sample({'leverage': allc[0][0], 'side': allc[0][1], 'where': allc[0][3], 'stop': allc[0][5], 'fast': allc[0][8]})
    ctx.sample({'leverage': allc[-1][0], 'side': allc[-1][1], 'where': allc[-1][3], 'kind': allc[-1][6], 'fast': allc[-1][8]})
    ctx.assumptions += ['tick = entry * 1e-4; the probe candle is placed relative to the liquidation price read from a calibration run of the same session',
                        'the range of a matching phase is the (gap-normalised) range of its minute / of all minutes of the fast-mode chunk']


def replay(case, ctx):
    if case.get('formula'):
        emb = ctx.embedding
        return [Violation.from_json(v) for v in _formulas((emb[0], emb[2]))['viols']]
    a = (case['leverage'], case['side'], case['averaged'], case['where'], case['dist'], tuple(case['stop']) if case['stop'] else None, case['kind'], case['mode'], case['fast'], tuple(case.get('embedding') or ctx.embedding), case.get('tp'))
    return [Violation.from_json(v) for v in _run(a)['viols']]
