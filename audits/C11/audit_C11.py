"""
Audit of property C11: "research.backtest is a pure, repeatable function of its arguments".

Run:  cd /tmp/wta_C11 && /venv/bin/python audit_C11.py
Exit code 1 (and an explanation) when a violation is observed, 0 otherwise.

Every scenario runs the PROBE call once in a fresh process and once in a process in which another
research.backtest() session ran before, and compares the two results (the quantification of the property).

  K1  store.vars (Strategy.shared_vars) is never reset                          -> well-formed input
  K2  config of an exchange that is not config['exchange'] survives a session  -> route exchange != config['exchange']
  K2b falsy config['type'] falls back to the type left behind by an earlier session
  K3  which candle set drives the session depends on set ordering (PYTHONHASHSEED) -> unequal candle lengths
"""
import json
import os
import subprocess
import sys

HERE = os.path.dirname(os.path.abspath(__file__))
sys.path.insert(0, HERE)


# --------------------------------------------------------------------------------------------------
# child side: runs inside a fresh interpreter
# --------------------------------------------------------------------------------------------------
def child(scenario: str, with_history: bool) -> None:
    import numpy as np
    import jesse.helpers as jh
    from jesse import research, utils
    from jesse.strategies import Strategy

    T0 = 1609459200000

    def mk_candles(n, seed=1, base=100.0, vol=0.004):
        rng = np.random.RandomState(seed)
        rows, p = [], base
        for i in range(n):
            o = p
            c = o * (1 + rng.randn() * vol)
            h = max(o, c) * (1 + abs(rng.randn()) * vol / 2)
            l = min(o, c) * (1 - abs(rng.randn()) * vol / 2)
            rows.append([T0 + i * 60000, o, c, h, l, 10 + rng.rand()])
            p = c
        return np.array(rows, dtype=float)

    def cfg(**kw):
        c = {'starting_balance': 10000, 'fee': 0.001, 'type': 'futures', 'futures_leverage': 2,
             'futures_leverage_mode': 'cross', 'exchange': 'Sandbox', 'warm_up_candles': 0}
        c.update(kw)
        return c

    def cd(exchange, symbol, arr):
        return {f'{exchange}-{symbol}': {'exchange': exchange, 'symbol': symbol, 'candles': arr}}

    def run(config, routes, data_routes, candles, **kw):
        jh.CACHED_CONFIG.clear()
        return research.backtest(config, routes, data_routes, candles, **kw)

    def summary(res):
        m = res['metrics']
        return {k: (None if m.get(k) is None else float(m[k])) for k in
                ('total', 'starting_balance', 'finishing_balance', 'fee', 'longs_count', 'shorts_count')}

    class Plain(Strategy):
        def should_long(self): return self.index % 20 == 0
        def should_short(self): return (not self.is_spot_trading) and self.index % 20 == 10
        def go_long(self): self.buy = utils.size_to_qty(self.balance * 0.3, self.price, fee_rate=self.fee_rate), self.price
        def go_short(self): self.sell = utils.size_to_qty(self.balance * 0.3, self.price, fee_rate=self.fee_rate), self.price
        def should_cancel_entry(self): return True
        def update_position(self):
            if self.index % 20 in (5, 15): self.liquidate()

    # the documented inter-route channel: the BTC route publishes a signal, the ETH route acts on it
    class Leader(Strategy):
        def before(self):
            if self.index == 300: self.shared_vars['go'] = True
        def should_long(self): return False
        def should_short(self): return False
        def go_long(self): pass
        def go_short(self): pass
        def should_cancel_entry(self): return True

    class Follower(Strategy):
        def should_long(self): return self.shared_vars.get('go', False) and self.trades_count == 0
        def should_short(self): return False
        def go_long(self): self.buy = 1, self.price
        def go_short(self): pass
        def should_cancel_entry(self): return True
        def update_position(self):
            if self.index >= 500: self.liquidate()

    out = {}
    try:
        if scenario == 'K1':
            def call():
                c = {}
                c.update(cd('Sandbox', 'BTC-USDT', mk_candles(600, seed=1)))
                c.update(cd('Sandbox', 'ETH-USDT', mk_candles(600, seed=2, base=2000.)))
                return run(cfg(),
                           [{'exchange': 'Sandbox', 'strategy': Leader, 'symbol': 'BTC-USDT', 'timeframe': '1m'},
                            {'exchange': 'Sandbox', 'strategy': Follower, 'symbol': 'ETH-USDT', 'timeframe': '1m'}],
                           [], c)
            if with_history:
                call()  # the earlier session is the very same call
            out = summary(call())

        elif scenario == 'K2':
            EX = 'Bybit USDT Perpetual'
            route = [{'exchange': EX, 'strategy': Plain, 'symbol': 'BTC-USDT', 'timeframe': '1m'}]
            if with_history:
                run(cfg(exchange=EX, starting_balance=777, fee=0.01, futures_leverage=7), route, [],
                    cd(EX, 'BTC-USDT', mk_candles(300, seed=5)))
            # like the docstring of research.backtest(): config names one exchange, the route another one
            out = summary(run(cfg(exchange='Binance Perpetual Futures'), route, [], cd(EX, 'BTC-USDT', mk_candles(600))))

        elif scenario == 'K2b':
            route = [{'exchange': 'Sandbox', 'strategy': Plain, 'symbol': 'BTC-USDT', 'timeframe': '1m'}]
            if with_history:
                run(cfg(type='spot'), route, [], cd('Sandbox', 'BTC-USDT', mk_candles(300, seed=5)))
            out = summary(run(cfg(type=None), route, [], cd('Sandbox', 'BTC-USDT', mk_candles(600))))

        elif scenario == 'K3':
            c = {}
            c.update(cd('Sandbox', 'BTC-USDT', mk_candles(1500, seed=1)))
            c.update(cd('Sandbox', 'ETH-USDT', mk_candles(1000, seed=2, base=2000.)))
            out = summary(run(cfg(), [{'exchange': 'Sandbox', 'strategy': Plain, 'symbol': 'BTC-USDT', 'timeframe': '5m'}],
                              [{'exchange': 'Sandbox', 'symbol': 'ETH-USDT', 'timeframe': '15m'}], c))
    except Exception as e:  # the outcome "raises" is compared as well
        out = {'EXC': f'{type(e).__name__}: {e}'}
    print('RESULT ' + json.dumps(out, sort_keys=True))


# --------------------------------------------------------------------------------------------------
# parent side
# --------------------------------------------------------------------------------------------------
def spawn(scenario: str, with_history: bool, hashseed: str = '0') -> str:
    env = dict(os.environ, PYTHONHASHSEED=hashseed, PYTHONWARNINGS='ignore')
    o = subprocess.run([sys.executable, os.path.abspath(__file__), '--child', scenario, '1' if with_history else '0'],
                       capture_output=True, text=True, cwd=HERE, env=env)
    lines = [l for l in o.stdout.splitlines() if l.startswith('RESULT ')]
    if not lines:
        return 'CRASH ' + o.stderr[-500:]
    return lines[0][len('RESULT '):]


def main() -> int:
    violations = []

    for scenario, what in (
            ('K1', 'store.vars (Strategy.shared_vars) survives store.reset(): the identical call made twice returns different results'),
            ('K2', "route exchange != config['exchange']: the probe trades with the balance/fee/leverage an earlier session configured for that exchange"),
            ('K2b', "config['type']=None: the exchange type is taken from what an earlier session left in jesse.config"),
    ):
        fresh = spawn(scenario, False)
        after = spawn(scenario, True)
        print(f'[{scenario}] fresh process        : {fresh}')
        print(f'[{scenario}] after earlier session: {after}')
        if fresh != after:
            violations.append(f'{scenario}: {what}')

    outcomes = {seed: spawn('K3', False, hashseed=seed) for seed in ('0', '1', '2', '3')}
    for seed, o in outcomes.items():
        print(f'[K3] fresh process, PYTHONHASHSEED={seed}: {o}')
    if len(set(outcomes.values())) > 1:
        violations.append('K3: two fresh processes disagree: config[app][considering_candles][0] (a tuple built from a set of '
                          'strings) decides which candle set gives the session length')

    if violations:
        print('\nC11 VIOLATED - research.backtest is not a repeatable function of its arguments:')
        for v in violations:
            print('  - ' + v)
        return 1
    print('\nC11: no violation observed')
    return 0


if __name__ == '__main__':
    if len(sys.argv) > 1 and sys.argv[1] == '--child':
        child(sys.argv[2], sys.argv[3] == '1')
        sys.exit(0)
    sys.exit(main())
