"""C17 - sizing and numeric helpers never overspend, over-risk or round up.

Engine C: complete enumeration of finite input lattices against exact rational references, plus an
end-to-end acceptance test of every sized order on real spot / futures(leverage 1) exchange objects.
"""
import itertools
import math
from decimal import Decimal
from fractions import Fraction as F

from .. import core
from ..core import Violation

ID = 'C17'
BAND = F(1, 10 ** 9)


def fx(x):
    """exact rational value of a float"""
    return F(float(x))


def fd(x):
    """rational value of the shortest decimal representation of a float (what the user typed)"""
    return F(Decimal(repr(float(x))))


CAPITALS = [1.0, 10.0, 100.0, 1000.0, 10000.0, 0.3, 0.7, 33.33, 99.99, 12345.678, 5e5, 1e6]
FEES = [0.0, 0.0002, 0.001, 0.005, 0.01]


def prices(quick):
    ms = list(range(1, 100)) + [101, 125, 250, 333, 499, 501, 667, 750, 875, 999] if quick else range(1, 1000)
    for e in range(-6, 4):
        for m in ms:
            yield float(Decimal(m).scaleb(e))


# ------------------------------------------------------------------ sizing (pure part)

def _sizing_chunk(args):
    caps, plist, quick = args
    from jesse import utils
    out = {'n': 0, 'nontrivial': 0, 'viols': [], 'near': []}
    seen = set()

    def bad(clause, sig, case, msg):
        k = (clause, repr(sorted(sig.items())))
        if k in seen:
            return
        seen.add(k)
        out['viols'].append(Violation(clause, sig, case, msg).to_json())

    for cap in caps:
        for price in plist:
            for fee in FEES:
                for prec in range(0, 9):
                    out['n'] += 1
                    try:
                        q = utils.size_to_qty(cap, price, precision=prec, fee_rate=fee)
                    except Exception as e:
                        bad('size_to_qty-raises', {'exc': type(e).__name__}, {'fn': 'size_to_qty', 'args': [cap, price, prec, fee]}, repr(e))
                        continue
                    if q > 0:
                        out['nontrivial'] += 1
                    cost = fx(q) * fx(price) * (1 + fx(fee))
                    if cost > fx(cap) * (1 + BAND):
                        bad('size_to_qty-overspends', {'fee_zero': fee == 0}, {'fn': 'size_to_qty', 'args': [cap, price, prec, fee]},
                            'size_to_qty(%r, %r, precision=%d, fee_rate=%r) = %r costs %s > capital' % (cap, price, prec, fee, q, float(cost)))
                    quo = fx(cap) * (1 - 3 * fx(fee)) / fx(price)
                    step = F(1, 10 ** prec)
                    if fx(q) > quo * (1 + BAND) or fx(q) < quo - step - quo * BAND:
                        bad('size_to_qty-step', {'above': fx(q) > quo}, {'fn': 'size_to_qty', 'args': [cap, price, prec, fee]},
                            'size_to_qty(%r, %r, precision=%d, fee_rate=%r) = %r but the quotient is %s (step %s)' % (cap, price, prec, fee, q, float(quo), float(step)))
                    if q > 0 and cost > fx(cap) * (1 - F(1, 10 ** 6)) and len(out['near']) < 400:
                        out['near'].append((cap, price, prec, fee, q))
    return out


def _risk_chunk(args):
    caps, quick = args
    from jesse import utils
    out = {'n': 0, 'nontrivial': 0, 'viols': []}
    seen = set()

    def bad(clause, sig, case, msg):
        k = (clause, repr(sorted(sig.items())))
        if k in seen:
            return
        seen.add(k)
        out['viols'].append(Violation(clause, sig, case, msg).to_json())

    entries = [100.0, 0.0123, 25000.0, 37.5, 1.0, 0.7]
    rel_stops = [0.999, 0.99, 0.95, 0.9, 0.5, 1.001, 1.01, 1.05, 1.1, 1.5]
    for cap in caps:
        for risk in (0.1, 1, 2.5, 10, 100):
            for entry in entries:
                for rs in rel_stops:
                    stop = entry * rs
                    for fee in FEES:
                        for prec in (0, 2, 3, 8):
                            out['n'] += 1
                            try:
                                q = utils.risk_to_qty(cap, risk, entry, stop, precision=prec, fee_rate=fee)
                            except Exception as e:
                                bad('risk_to_qty-raises', {'exc': type(e).__name__}, {'fn': 'risk_to_qty', 'args': [cap, risk, entry, stop, prec, fee]}, repr(e))
                                continue
                            if q > 0:
                                out['nontrivial'] += 1
                            risked = fx(q) * abs(fx(entry) - fx(stop))
                            allowed = fx(cap) * fd(risk) / 100
                            if risked > allowed * (1 + BAND):
                                bad('risk_to_qty-overrisks', {}, {'fn': 'risk_to_qty', 'args': [cap, risk, entry, stop, prec, fee]},
                                    'risk_to_qty(%r, %r, %r, %r, precision=%d, fee_rate=%r) = %r risks %s > %s' % (cap, risk, entry, stop, prec, fee, q, float(risked), float(allowed)))
                            cost = fx(q) * fx(entry) * (1 + fx(fee))
                            if cost > fx(cap) * (1 + BAND):
                                bad('risk_to_qty-overspends', {}, {'fn': 'risk_to_qty', 'args': [cap, risk, entry, stop, prec, fee]},
                                    'risk_to_qty(...) = %r costs %s > capital %r' % (q, float(cost), cap))
                    # stop limiting
                    for ttype in ('long', 'short'):
                        for pct in (0.5, 1, 5, 20):
                            stop = entry * rs
                            if (ttype == 'long') != (stop < entry):
                                continue
                            out['n'] += 1
                            r = utils.limit_stop_loss(entry, stop, ttype, pct)
                            d = abs(fx(entry) - fx(r))
                            if d > abs(fx(entry) - fx(stop)) * (1 + BAND) + F(1, 10 ** 15) or d > fx(entry) * fd(pct) / 100 * (1 + BAND) \
                                    or (ttype == 'long' and r > entry) or (ttype == 'short' and r < entry):
                                bad('limit_stop_loss-widens', {'type': ttype}, {'fn': 'limit_stop_loss', 'args': [entry, stop, ttype, pct]},
                                    'limit_stop_loss(%r, %r, %r, %r) = %r' % (entry, stop, ttype, pct, r))
                            else:
                                out['nontrivial'] += 1
    return out


# ------------------------------------------------------------------ end-to-end acceptance

def _accept_chunk(cases):
    """Every (capital, price, precision, fee, qty): a fresh real account holding the capital must accept Order(qty, price)."""
    from jesse import exceptions
    from .. import acct
    out = {'n': 0, 'viols': []}
    seen = set()
    for kind in ('spot', 'futures'):
        for cap, price, prec, fee, q in cases:
            if q <= 0:
                continue
            out['n'] += 1
            api, ex, pos = acct.fresh(kind, fee, cap, leverage=1, symbols=('BTC-USDT',), price=price)
            try:
                api.limit_order('BTC-USDT', q, price, 'buy', False)
            except (exceptions.InsufficientBalance, exceptions.InsufficientMargin) as e:
                # the float product q * price exceeds the capital (by an ulp: the recorded finding C17-K1) or not (anything else)
                over = float(q) * float(price) > float(cap)
                k = (kind, fee == 0, over)
                if k in seen:
                    continue
                seen.add(k)
                out['viols'].append(Violation('sized-order-rejected', {'account': kind, 'fee_zero': fee == 0, 'float_cost_exceeds_capital': over},
                                              {'fn': 'accept', 'args': [kind, cap, price, prec, fee]},
                                              'size_to_qty(%r, %r, precision=%d, fee_rate=%r) = %r is rejected by a fresh %s account holding %r: %s'
                                              % (cap, price, prec, fee, q, kind, cap, str(e)[:120])).to_json())
    return out


# ------------------------------------------------------------------ decimal helpers, rounding, tables

def _decimal_chunk(args):
    d, imax = args
    from jesse import utils
    out = {'n': 0, 'nontrivial': 0, 'viols': []}
    seen = set()
    sc = 10 ** d
    for i in range(0, imax + 1):
        for j in range(0, imax + 1):
            a, b = i / sc, j / sc
            for (x, y) in ((a, b), (math.nextafter(a, 2 * a + 1), b), (a, math.nextafter(b, -1.0)), (-a, b), (a, -b), (-a, -b)):
                out['n'] += 1
                es = float(fd(x) + fd(y))
                ed = float(fd(x) - fd(y))
                gs, gd = utils.sum_floats(x, y), utils.subtract_floats(x, y)
                if repr(es) != repr(float(i + j) / sc) if (x, y) == (a, b) else False:
                    pass
                if gs != es and ('s' not in seen):
                    seen.add('s')
                    out['viols'].append(Violation('sum_floats', {}, {'fn': 'sum_floats', 'args': [x, y]}, 'sum_floats(%r, %r) = %r, decimal arithmetic gives %r' % (x, y, gs, es)).to_json())
                if gd != ed and ('d' not in seen):
                    seen.add('d')
                    out['viols'].append(Violation('subtract_floats', {}, {'fn': 'subtract_floats', 'args': [x, y]}, 'subtract_floats(%r, %r) = %r, decimal arithmetic gives %r' % (x, y, gd, ed)).to_json())
                if (x, y) == (a, b) and True:
                    # plain decimals: the result must be THE decimal (i+j)/10^d
                    if gs != (i + j) / sc and float(F(i + j, sc)) != gs and ('s2' not in seen):
                        seen.add('s2')
                        out['viols'].append(Violation('sum_floats', {'decimal': True}, {'fn': 'sum_floats', 'args': [x, y]}, 'sum_floats(%r, %r) = %r' % (x, y, gs)).to_json())
                    if float(0.1 + 0.2) != 0.3 and (i + j) / sc != a + b:
                        out['nontrivial'] += 1     # naive float addition would have been wrong here
    return out


def _rounding(quick):
    import numpy as np
    import jesse.helpers as jh
    out = {'n': 0, 'nontrivial': 0, 'viols': []}
    seen = set()
    qs = []
    for e in range(-8, 5):
        for m in (1, 2, 29, 57, 58, 115, 999, 1234, 4999, 5001, 9999, 12345):
            qs.append(float(Decimal(m).scaleb(e)))
    qs += [0.29, 0.57, 0.58, 1.15, 2.675, 1.005, 8.325, 1e-9, 123456.789]
    for q in qs:
        for prec in range(-2, 9):
            out['n'] += 1
            try:
                r = jh.round_qty_for_live_mode(q, prec)
            except ValueError:
                if prec >= 0:
                    out['viols'].append(Violation('round_qty-raises', {}, {'fn': 'round_qty', 'args': [q, prec]}, 'raised ValueError for precision %d' % prec).to_json())
                continue
            step = F(10) ** (-prec)
            down = (fx(q) // step) * step
            if fx(r) > fx(q):
                if not (down == 0 and fx(r) == fx(float(step))):
                    k = 'up'
                    if k not in seen:
                        seen.add(k)
                        out['viols'].append(Violation('round_qty-rounds-up', {}, {'fn': 'round_qty', 'args': [q, prec]},
                                                      'round_qty_for_live_mode(%r, %d) = %r > input' % (q, prec, r)).to_json())
            else:
                out['nontrivial'] += 1
            # array form agrees with scalar form
            ra = jh.round_qty_for_live_mode(np.array([q, q]), prec)
            if float(ra[0]) != float(r) or float(ra[1]) != float(r):
                if 'arr' not in seen:
                    seen.add('arr')
                    out['viols'].append(Violation('round_qty-array', {}, {'fn': 'round_qty', 'args': [q, prec]}, 'array form %r differs from scalar %r' % (ra, r)).to_json())
            rd = jh.round_decimals_down(q, prec)
            if fx(float(rd)) > fx(q) and 'rdd' not in seen:
                seen.add('rdd')
                out['viols'].append(Violation('round_decimals_down-rounds-up', {}, {'fn': 'round_decimals_down', 'args': [q, prec]}, 'round_decimals_down(%r, %d) = %r' % (q, prec, rd)).to_json())
    return out


def label_minutes(tf):
    n, unit = int(tf[:-1]), tf[-1]
    return n * {'m': 1, 'h': 60, 'D': 1440, 'W': 10080, 'M': 43200}[unit]


def _tables(args):
    lo, hi = args
    import jesse.helpers as jh
    from jesse import utils
    from jesse.enums import timeframes
    from jesse.modes import backtest_mode
    tfs = [v for k, v in vars(timeframes).items() if not k.startswith('_')]
    out = {'n': 0, 'nontrivial': 0, 'viols': []}
    if lo == 0:
        for tf in tfs:
            out['n'] += 3
            want = label_minutes(tf)
            if utils.timeframe_to_one_minutes(tf) != want or jh.timeframe_to_one_minutes(tf) != want:
                out['viols'].append(Violation('timeframe-table', {'table': 'utils', 'tf': tf}, {'fn': 'timeframe_to_one_minutes', 'args': [tf]},
                                              'utils.timeframe_to_one_minutes(%r) = %r, label says %d' % (tf, utils.timeframe_to_one_minutes(tf), want)).to_json())
            if backtest_mode.timeframe_to_one_minutes.get(tf) != want:
                out['viols'].append(Violation('timeframe-table', {'table': 'backtest_mode', 'tf': tf}, {'fn': 'backtest_mode.timeframe_to_one_minutes', 'args': [tf]},
                                              'backtest_mode table has %r for %r, label says %d' % (backtest_mode.timeframe_to_one_minutes.get(tf), tf, want)).to_json())
            try:
                a = utils.anchor_timeframe(tf)
            except KeyError:
                continue
            if a not in tfs or label_minutes(a) <= want or label_minutes(a) % want:
                out['viols'].append(Violation('anchor-timeframe', {'tf': tf}, {'fn': 'anchor_timeframe', 'args': [tf]}, 'anchor_timeframe(%r) = %r' % (tf, a)).to_json())
    seen = set()
    n = len(tfs)
    for mask in range(max(lo, 1), hi):
        S = [tfs[i] for i in range(n) if mask >> i & 1]
        out['n'] += 1
        for variant in (S, S[::-1]):
            got = jh.max_timeframe(list(variant))
            best = max(label_minutes(t) for t in S)
            if got not in S or label_minutes(got) != best:
                top = max(S, key=label_minutes)
                if top not in seen:
                    seen.add(top)
                    out['viols'].append(Violation('max_timeframe', {'largest': top}, {'fn': 'max_timeframe', 'args': [S]},
                                                  'max_timeframe(%r) = %r, the largest is %r' % (S, got, top)).to_json())
        if len(S) > 1:
            out['nontrivial'] += 1
    return out


def run(ctx):
    quick = ctx.quick
    cov = ctx.coverage
    plist = list(prices(quick))
    jobs = [([c], plist[i:i + 400], quick) for c in CAPITALS for i in range(0, len(plist), 400)]
    near = []
    for r in core.pmap(_sizing_chunk, jobs, chunksize=1):
        cov['transitions'] += r['n']
        cov['distinct_nontrivial'] += r['nontrivial']
        ctx.count('size_to_qty', r['n'])
        near += r['near']
        ctx.extend(Violation.from_json(v) for v in r['viols'])
    # end-to-end acceptance: every near-the-limit case found above plus a fixed sub-lattice
    from jesse import utils
    acc = list(near[:3000 if quick else 20000])
    sub_p = [p for k, p in enumerate(plist) if k % (37 if quick else 7) == 0]
    for cap in CAPITALS:
        for price in sub_p:
            for fee in (0.0, 0.001):
                for prec in (0, 3, 8):
                    acc.append((cap, price, prec, fee, utils.size_to_qty(cap, price, precision=prec, fee_rate=fee)))
    n_acc = 0
    for r in core.pmap(_accept_chunk, list(core.chunks(acc, 200)), chunksize=1):
        n_acc += r['n']
        ctx.extend(Violation.from_json(v) for v in r['viols'])
    cov['transitions'] += n_acc
    cov['traces_validated_against_impl'] += n_acc
    ctx.count('order-acceptance', n_acc)
    for r in core.pmap(_risk_chunk, [([c], quick) for c in CAPITALS], chunksize=1):
        cov['transitions'] += r['n']
        cov['distinct_nontrivial'] += r['nontrivial']
        ctx.count('risk_to_qty+limit_stop_loss', r['n'])
        ctx.extend(Violation.from_json(v) for v in r['viols'])
    imax = 60 if quick else 300
    for r in core.pmap(_decimal_chunk, [(d, imax) for d in range(0, 9)], chunksize=1):
        cov['transitions'] += r['n']
        cov['distinct_nontrivial'] += r['nontrivial']
        ctx.count('sum/subtract_floats', r['n'])
        ctx.extend(Violation.from_json(v) for v in r['viols'])
    r = _rounding(quick)
    cov['transitions'] += r['n']
    cov['distinct_nontrivial'] += r['nontrivial']
    ctx.count('rounding', r['n'])
    ctx.extend(Violation.from_json(v) for v in r['viols'])
    total = 1 << 17
    step = total // 32
    for r in core.pmap(_tables, [(i, min(i + step, total)) for i in range(0, total, step)], chunksize=1):
        cov['transitions'] += r['n']
        cov['distinct_nontrivial'] += r['nontrivial']
        ctx.count('timeframes', r['n'])
        ctx.extend(Violation.from_json(v) for v in r['viols'])
    cov['states'] = cov['transitions']
    cov['evaluations'] = cov['transitions']
    cov['traces_validated_against_impl'] = cov['transitions']
    cov['rule'] = ('complete enumeration of the input lattices in bounds; a case is non-trivial when the helper returned a positive quantity / a real '
                   'rounding happened / the subset has more than one timeframe')
    cov['bounds'] = {'capitals': CAPITALS, 'prices': 'm*10^e, e in -6..3, m in %s' % ('1..99 + 10 specials' if quick else '1..999'), 'fees': FEES,
                     'precisions': '0..8', 'decimal_pairs': 'i/10^d, j/10^d, i,j<=%d, d in 0..8 (+ float neighbours)' % imax,
                     'timeframe_subsets': total - 1, 'acceptance_cases': n_acc}
    ctx.sample({'fn': 'size_to_qty', 'args': [CAPITALS[5], plist[7], 3, 0.001]})
    ctx.sample({'fn': 'max_timeframe', 'args': [['1D', '1W']]})
    ctx.sample({'fn': 'sum_floats', 'args': [0.1, 0.2]})
    ctx.assumptions += ['money comparisons use exact rationals of the float arguments with a 1e-9 relative dont-care band; order acceptance, decimal helpers, rounding and tables are compared exactly',
                        'the "exact quotient" of size_to_qty is capital*(1-3*fee)/price, the quantity its fee reserve is defined on']


def replay(case, ctx):
    from jesse import utils
    import jesse.helpers as jh
    fn, a = case['fn'], case['args']
    out = []
    if fn == 'max_timeframe':
        got = jh.max_timeframe(list(a[0]))
        top = max(a[0], key=label_minutes)
        if label_minutes(got) != label_minutes(top):
            out.append(Violation('max_timeframe', {'largest': top}, case, 'max_timeframe(%r) = %r, the largest is %r' % (a[0], got, top)))
    elif fn == 'size_to_qty':
        r = _sizing_chunk(([a[0]], [a[1]], True))
        out += [Violation.from_json(v) for v in r['viols'] if v['case']['args'] == a]
    elif fn == 'accept':
        kind, cap, price, prec, fee = a
        q = utils.size_to_qty(cap, price, precision=prec, fee_rate=fee)
        r = _accept_chunk([(cap, price, prec, fee, q)])
        out += [Violation.from_json(v) for v in r['viols'] if v['signature']['account'] == kind]
    else:
        out.append(Violation('replay-unsupported', {}, case, 'replay of %s cases re-runs the whole lattice: ./check C17' % fn))
    return out
