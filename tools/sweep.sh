#!/bin/bash
# usage: tools/sweep.sh <tier> <seeds...>   - runs every registered check, prints one line per run.
# Under `vp run --with-repo` the checks import jesse from the snapshot ($VP_RUN_REPO), so /repo can be patched meanwhile.
tier=$1; shift
cd "$(dirname "$(readlink -f "$0")")/.." || exit 2
[ -n "$VP_RUN_REPO" ] && export VERIF_REPO=$VP_RUN_REPO
for s in "$@"; do
  for c in C01 C02 C03 C04 C05 C06 C07 C08 C09 C10 C11 C12 C13 C14 C15 C16 C17 C18 C19 C20; do
    t0=$(date +%s)
    VERIF_SEED=$s ./check $c --tier $tier > /tmp/sweep_$$.log 2>&1; rc=$?
    echo "seed=$s $c rc=$rc $(( $(date +%s) - t0 ))s $(grep -c '^VIOLATION' /tmp/sweep_$$.log) viol $(grep -c '^KNOWN-FINDING' /tmp/sweep_$$.log) known | $(grep "^$c tier" /tmp/sweep_$$.log | cut -c1-120)"
    if [ $rc -ne 0 ]; then grep -A2 '^VIOLATION\|HARNESS' /tmp/sweep_$$.log | head -12; fi
  done
done
rm -f /tmp/sweep_$$.log
