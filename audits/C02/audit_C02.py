"""
Audit of property C02 (resting orders fill exactly when and where the price reaches them).

Runs three small sessions against the unmodified jesse of this worktree and exits 1 if at least
one of them violates the property (exit 0 otherwise). Nothing in jesse is patched: everything is
observed through the public strategy hooks (on_open_position / on_reduced_position /
on_close_position receive the executed Order object).

    cd /tmp/wta_C02 && /venv/bin/python audit_C02.py
"""
import sys
import warnings

warnings.filterwarnings('ignore')

import numpy as np
import jesse.helpers as jh
from jesse import research
from jesse.strategies import Strategy

T0 = 1609459200000
FLAT = (100, 100, 100, 100)


def candles(rows):
    # rows of (open, close, high, low)
    return np.array([[T0 + i * 60_000, o, c, h, l, 10.0] for i, (o, c, h, l) in enumerate(rows)], dtype=float)


def minute(ts):
    return None if ts is None else (ts - T0) / 60_000


def run(routes, candle_sets, fast_mode):
    jh.CACHED_CONFIG.clear()
    config = {'starting_balance': 100_000, 'fee': 0, 'type': 'futures', 'futures_leverage': 2,
              'futures_leverage_mode': 'cross', 'exchange': 'Sandbox', 'warm_up_candles': 0}
    r = [{'exchange': 'Sandbox', 'strategy': s, 'symbol': sym, 'timeframe': tf} for (s, sym, tf) in routes]
    c = {f'Sandbox-{sym}': {'exchange': 'Sandbox', 'symbol': sym, 'candles': candles(rows)}
         for sym, rows in candle_sets.items()}
    research.backtest(config, r, [], c, fast_mode=fast_mode)


def rec(order):
    return {'type': order.type, 'side': order.side, 'qty': order.qty, 'price': order.price,
            'created': minute(order.created_at), 'executed': minute(order.executed_at)}


# --------------------------------------------------------------------------------------------------
# V3 (main finding) - fast simulator: a resting order submitted by the fill of a queued MARKET order
# inside a chunk is ignored for the rest of that chunk.
# --------------------------------------------------------------------------------------------------
class V3(Strategy):
    events = []

    def should_long(self): return self.index == 0
    def should_short(self): return False
    def should_cancel_entry(self): return False
    def go_long(self): self.buy = 2, 99  # LIMIT buy below the price (100)

    def on_open_position(self, order):
        V3.events.append(('open', rec(order)))
        # take one unit off at a price within 0.015% of the current price (99): Broker.reduce_position_at
        # turns this into a MARKET order at 99.005; the sandbox queues it
        self.take_profit = 1, 99.005

    def on_reduced_position(self, order):
        V3.events.append(('reduced', rec(order)))
        # protect the rest: STOP sell at 98
        self.stop_loss = self.position.qty, 98

    def on_close_position(self, order):
        V3.events.append(('close', rec(order)))


def check_v3():
    # minute 5 (t=5..6): falls from 100 to 99 -> the entry fills; minute 6: 99 -> 97.5 -> 98.5, its range
    # [97.5, 99] contains the stop price 98; afterwards the price stays at 98.5
    rows = [FLAT] * 5 + [(100, 99, 100, 99), (99, 98.5, 99, 97.5)] + [(98.5, 98.5, 98.5, 98.5)] * 13
    out = {}
    for fast in (False, True):
        V3.events = []
        run([(V3, 'BTC-USDT', '5m')], {'BTC-USDT': rows}, fast)
        out[fast] = list(V3.events)
    close_n = [e for k, e in out[False] if k == 'close']
    close_f = [e for k, e in out[True] if k == 'close']
    ok_normal = len(close_n) == 1 and close_n[0]['type'] == 'STOP' and close_n[0]['price'] == 98 and close_n[0]['executed'] == 7
    bad_fast = not (len(close_f) == 1 and close_f[0]['type'] == 'STOP' and close_f[0]['price'] == 98 and close_f[0]['executed'] == 7)
    if bad_fast:
        print('[V3] VIOLATION (fast simulator, single route, timeframe 5m):')
        print('     clause: "an active order is never left unfilled at the end of a minute (or fast-mode chunk)')
        print('              whose range contained its price"')
        print('     STOP sell @98 was submitted at t=6 (by the fill of a queued MARKET order inside the chunk);')
        print('     minute 6 has the range [97.5, 99] and the chunk 5..9 the range [97.5, 100].')
        print(f'     candle-by-candle simulator closes the position with: {close_n}')
        print(f'     fast simulator closes the position with          : {close_f}')
        print('     -> in fast mode the stop never triggers; the position is closed by the end-of-session MARKET order.')
    else:
        print('[V3] holds: the fast simulator filled the stop at 98 in minute 6', '(normal ok)' if ok_normal else '')
    return bad_fast


# --------------------------------------------------------------------------------------------------
# V2 - fast simulator, two routes: an order is filled BEFORE it was submitted (the symbols of a chunk are
# simulated one after the other, so an order submitted from a fill of the first symbol late in the
# chunk meets the early minutes of the second symbol).
# --------------------------------------------------------------------------------------------------
class V2A(Strategy):
    def should_long(self): return self.index == 0
    def should_short(self): return False
    def should_cancel_entry(self): return False
    def go_long(self): self.buy = 1, 98


class V2B(Strategy):
    events = []

    def should_long(self): return self.index == 0
    def should_short(self): return False
    def should_cancel_entry(self): return False
    def go_long(self): self.buy = 1, self.price

    def on_route_open_position(self, strategy):
        # the other route opened a position: protect ours with a stop at 95
        if self.position.is_open:
            self.stop_loss = self.position.qty, 95

    def on_close_position(self, order):
        V2B.events.append(rec(order))


def check_v2():
    btc = [FLAT] * 9 + [(100, 100, 100, 97)] + [FLAT] * 10   # dips to 97 in minute 9 only -> BTC entry fills at t=10
    eth = [FLAT] * 5 + [(100, 100, 100, 94)] + [FLAT] * 14   # dips to 94 in minute 5 only (before the stop exists)
    out = {}
    for fast in (False, True):
        V2B.events = []
        run([(V2A, 'BTC-USDT', '5m'), (V2B, 'ETH-USDT', '5m')], {'BTC-USDT': btc, 'ETH-USDT': eth}, fast)
        out[fast] = list(V2B.events)
    bad = [e for e in out[True] if e['type'] == 'STOP' and e['executed'] < e['created']]
    if bad:
        print('[V2] VIOLATION (fast simulator, two routes BTC-USDT + ETH-USDT, timeframe 5m):')
        print('     clause: "never before it was submitted"')
        print(f'     ETH STOP sell @95: {bad[0]}  (times in minutes since the session start)')
        print('     ETH only trades at 95 during minute 5; the order is created at t=10 and executed at t=6.')
        print(f'     candle-by-candle simulator, same session, ETH closing orders: {out[False]} (the stop never fills)')
    else:
        print('[V2] holds: no ETH order executed before its submission')
    return bool(bad)


# --------------------------------------------------------------------------------------------------
# V1 - both simulators: an exit submitted within 0.015% of the price becomes a MARKET order that is
# filled at the REQUESTED price instead of the current price.
# --------------------------------------------------------------------------------------------------
class V1(Strategy):
    events = []

    def should_long(self): return self.index == 0
    def should_short(self): return False
    def go_long(self): self.buy = 1, self.price

    def update_position(self):
        if self.index == 2:
            self.take_profit = 1, 100.01

    def on_close_position(self, order):
        V1.events.append((rec(order), self.position.current_price))


def check_v1():
    bad_any = False
    for fast in (False, True):
        V1.events = []
        run([(V1, 'BTC-USDT', '1m')], {'BTC-USDT': [FLAT] * 8}, fast)
        for e, current_price in V1.events:
            if e['type'] == 'MARKET' and e['price'] != 100:
                bad_any = True
                print(f'[V1] VIOLATION (fast_mode={fast}): every candle of the session is flat at 100, yet')
                print('     clause: "A MARKET order is filled at the current price at the moment it is submitted"')
                print(f'     closing order = {e}, position.current_price at that moment = {current_price}')
    if not bad_any:
        print('[V1] holds: the MARKET exit was filled at the current price')
    return bad_any


if __name__ == '__main__':
    v3 = check_v3()
    v2 = check_v2()
    v1 = check_v1()
    if v3 or v2 or v1:
        print('\nC02 VIOLATED:', ', '.join(n for n, v in (('V3', v3), ('V2', v2), ('V1', v1)) if v))
        sys.exit(1)
    print('\nC02 holds on these sessions')
    sys.exit(0)
