"""
Audit of property C15 (indicators match their definitions, ranges and orderings).

Run:  cd /tmp/wta_C15 && /venv/bin/python audit_C15.py
Exit code 1 and an explanation when at least one violation is reproduced, 0 otherwise.
Nothing in jesse is modified; only public functions of jesse.indicators are called.
"""
import sys
import warnings

import numpy as np

warnings.filterwarnings('ignore')
import jesse.indicators as ta  # noqa: E402


def candles_from_close(close, spread=0.0, seed=0):
    """[timestamp, open, close, high, low, volume] 1m rows; open = previous close; consistent h/l."""
    rng = np.random.default_rng(seed)
    close = np.asarray(close, dtype=float)
    n = len(close)
    op = np.roll(close, 1)
    op[0] = close[0]
    hi = np.maximum(op, close) * (1 + spread * rng.random(n))
    lo = np.minimum(op, close) * (1 - spread * rng.random(n))
    vol = rng.random(n) * 100 + 1
    ts = 1609459200000 + np.arange(n) * 60000
    return np.column_stack([ts, op, close, hi, lo, vol]).astype(float)


def rolling(x, p, f):
    r = np.full(len(x), np.nan)
    for i in range(p - 1, len(x)):
        r[i] = f(x[i - p + 1:i + 1])
    return r


violations = []


def report(tag, msg):
    violations.append(tag)
    print(f'[VIOLATION {tag}] {msg}')


# --------------------------------------------------------------------------------------------
# V1  var() is negative, Bollinger band width is non-zero / wrong: E[x^2]-E[x]^2 cancellation
# --------------------------------------------------------------------------------------------
const = candles_from_close(np.full(100, 1000000.1))          # adversarial series: constant, huge price
v = ta.var(const, period=20, sequential=True)
if np.nanmin(v) < 0:
    report('V1a', f'var(constant 1000000.1, period=20) = {np.nanmin(v)!r} < 0 '
                  f'("volatility measures are non-negative"; textbook value 0)')

bb = ta.bollinger_bands(const, period=20, sequential=True)
width = np.nanmax(bb.upperband - bb.lowerband)
sd = np.nanmax(ta.stddev(const, period=20, sequential=True))
if width > 1e-6:
    report('V1b', f'bollinger_bands(constant 1000000.1, period=20): upper-lower = {width!r}, '
                  f'textbook 4*std = 0 (jesse.stddev on the same series gives {sd!r})')

rng = np.random.default_rng(11)
near = candles_from_close(1e6 + np.round(rng.normal(0, 0.01, 200), 2))   # 1e6 with one-cent ticks
c = near[:, 2]
worst_bb = 0.0
worst_var = 0.0
for p in (2, 5, 14, 20, 60):
    ref_sd = rolling(c, p, np.std)
    bbp = ta.bollinger_bands(near, period=p, sequential=True)
    w = bbp.upperband - bbp.lowerband
    m = ref_sd > 0
    worst_bb = max(worst_bb, float(np.nanmax(np.abs(w[m] - 4 * ref_sd[m]) / (4 * ref_sd[m]))))
    vv = ta.var(near, period=p, sequential=True)
    ref_v = rolling(c, p, np.var)
    worst_var = max(worst_var, float(np.nanmax(np.abs(vv[m] - ref_v[m]) / ref_v[m])))
if worst_bb > 1e-3 or worst_var > 1e-3:
    report('V1c', f'price 1e6 moving in 0.01 ticks: Bollinger band width off by up to {worst_bb:.1%}, '
                  f'var() off by up to {worst_var:.1%} relative to a two-pass window std/var '
                  f'(window functions must agree "exactly")')

# --------------------------------------------------------------------------------------------
# V2  stoch() with a recursive smoothing matype is NaN everywhere
# --------------------------------------------------------------------------------------------
rng = np.random.default_rng(1)
rnd = candles_from_close(100 * np.exp(np.cumsum(rng.normal(0, 0.01, 400))), spread=0.005)
for mt, name in ((1, 'ema'), (3, 'dema'), (12, 'wilders'), (23, 'smma')):
    s = ta.stoch(rnd, fastk_period=14, slowk_period=3, slowk_matype=mt, slowd_period=3, slowd_matype=0,
                 sequential=True)
    if not np.isfinite(s.k).any():
        report('V2', f'stoch(fastk=14, slowk=3, slowk_matype={mt} [{name}]) on 400 random candles: %K and %D are '
                     f'NaN at every index (0 finite values); the textbook value is the {name} of the raw %K '
                     f'and lies in [0, 100]')
        break
s = ta.stoch(rnd, 14, 3, 0, 3, 1, sequential=True)
if not np.isfinite(s.d).any():
    report('V2b', 'stoch(slowd_matype=1 [ema]): %D is NaN at every index')

# --------------------------------------------------------------------------------------------
# V3  stochastics on a flat window: NaN instead of a value in [0,100]; poisons recursive %D for ever
# --------------------------------------------------------------------------------------------
flat = candles_from_close(np.full(100, 100.0))
sf = ta.stochf(flat, fastk_period=5, fastd_period=3, fastd_matype=0, sequential=True)
st = ta.stoch(flat, 5, 3, 0, 3, 0, sequential=True)
wr = ta.willr(flat, 5, sequential=True)
if np.isnan(sf.k[4:]).any() or np.isnan(st.k[6:]).any():
    report('V3a', f'constant series: stochf %K has {int(np.isnan(sf.k[4:]).sum())} NaN, stoch %K has '
                  f'{int(np.isnan(st.k[6:]).sum())} NaN after warm-up (0/0), i.e. not inside [0,100]; '
                  f'willr guards the same denominator and returns {wr[-1]}')
rng = np.random.default_rng(9)
cl = 100 * np.exp(np.cumsum(rng.normal(0, 0.01, 300)))
cl[100:106] = cl[100]
gap = candles_from_close(cl, spread=0.004)
gap[101:106, 1] = gap[101:106, 3] = gap[101:106, 4] = cl[100]      # five flat 1m bars (no trades)
sf = ta.stochf(gap, 5, 3, 1, sequential=True)
if np.isnan(sf.d[-1]):
    report('V3b', f'one stretch of 5 flat candles at index 101..105 of 300: stochf(5, 3, fastd_matype=1) %D is NaN '
                  f'for all {int(np.isnan(sf.d[105:]).sum())} later candles (never recovers)')

# --------------------------------------------------------------------------------------------
# V4  ma() selector != selected moving average for a 1-D series longer than 240, sequential=False
# --------------------------------------------------------------------------------------------
src = rnd[:, 2].copy()
for mt, f in ((1, ta.ema), (12, ta.wilders), (23, ta.smma), (3, ta.dema)):
    a = ta.ma(src, 60, mt, sequential=False)
    b = f(src, 60, sequential=False)
    if a != b:
        report('V4', f'ma(series[400], period=60, matype={mt}) = {a!r} but {f.__name__}(series[400], 60) = {b!r} '
                     f'(selector must return "exactly" what the selected average returns)')
        break

# --------------------------------------------------------------------------------------------
# V5  CCI of a constant series is +-66.67, not 0 (md == 0 guard defeated by rounding)
# --------------------------------------------------------------------------------------------
cc = ta.cci(candles_from_close(np.full(100, 1.1)), period=14)
if abs(cc) > 1:
    report('V5', f'cci(constant 1.1, period=14) = {cc!r}; typical price never deviates from its mean, the code means '
                 f'to return 0 (md == 0 branch)')

# --------------------------------------------------------------------------------------------
# V6  selector: documented matype 19 rejected, unknown matype -> UnboundLocalError
# --------------------------------------------------------------------------------------------
try:
    ta.ma(rnd, 14, 40)
except UnboundLocalError as e:
    report('V6', f'ma(matype=40) raises UnboundLocalError ({e}); matype=19 (documented "ht_trendline") raises '
                 f'ValueError("Invalid matype value.")')
except Exception:
    pass

# (V7, heap corruption in bollinger_bands with fewer than period-1 candles, is demonstrated in a
#  subprocess because it may kill the interpreter)
import subprocess  # noqa: E402

code = (
    "import warnings; warnings.filterwarnings('ignore')\n"
    "import numpy as np, jesse.indicators as ta\n"
    "c = np.array([[1609459200000, 100., 100., 101., 99., 10.]])\n"
    "for _ in range(200):\n"
    "    ta.bollinger_bands(c, period=60)\n"
    "    x = [np.ones(k) for k in range(1, 64)]\n"
    "print('survived')\n"
)
r = subprocess.run([sys.executable, '-c', code], capture_output=True, text=True)
if r.returncode != 0 or 'survived' not in r.stdout:
    tail = (r.stderr.strip().splitlines() or [''])[-1]
    report('V7', f'bollinger_bands(1 candle, period=60) writes NaN past the end of its result buffer '
                 f'(_moving_std_numba, no bounds check under njit): child exited with {r.returncode}: {tail}')

print()
if violations:
    print('C15 violated:', ', '.join(violations))
    sys.exit(1)
print('no violation reproduced')
sys.exit(0)
