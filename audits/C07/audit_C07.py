"""
Audit of property C07 ("every timeframe is the exact aggregation of the one-minute candles;
a strategy sees exactly one candle per started window, the last one possibly still forming").

Run:  cd /tmp/wta_C07 && /venv/bin/python audit_C07.py
Exit code 1 = at least one violation reproduced, 0 = none.

Three independent counterexamples are exercised (A is the primary one: single route, epoch-aligned
session, route timeframe, both simulators):

 A. liquidation hook: when an isolated-margin position is liquidated, the strategy's
    on_close_position() runs while 10 one-minute candles are stored but only ONE 5m candle is readable
    (the window [5..9] is missing from self.candles; self.current_candle is the PREVIOUS window).
 B. 3D / 1W route with a session that starts at a day boundary (what jesse's loader produces, e.g.
    2021-01-01) that is not a multiple of the timeframe since the epoch: after any order fill the
    strategy sees extra, wrongly-windowed rows, and a completed candle is lost for good.
 C. a timeframe that is readable for a symbol only because another symbol routes it: after a fill in
    the last minute of its window the forming candle is missing.
"""
import math
import sys
import warnings

warnings.filterwarnings('ignore')

import numpy as np

import jesse.helpers as jh
from jesse import research
from jesse.config import config as jconfig
from jesse.store import store
from jesse.strategies import Strategy

T0 = 1609459200000  # 2021-01-01T00:00:00Z
TF = {'1m': 1, '5m': 5, '15m': 15, '3D': 4320, '1W': 10080}
FOUND = []


def agg(c):
    return np.array([c[0, 0], c[0, 1], c[-1, 2], c[:, 3].max(), c[:, 4].min(), c[:, 5].sum()])


def observe(tag, log):
    """compare every readable bigger-timeframe series with the aggregation of the stored 1m candles"""
    for ex, sym in jconfig['app']['considering_candles']:
        one = np.array(store.candles.get_candles(ex, sym, '1m'), copy=True)
        for tf in jconfig['app']['considering_timeframes']:
            if tf == '1m':
                continue
            n = TF[tf]
            got = np.array(store.candles.get_candles(ex, sym, tf), copy=True)
            want = [agg(one[k * n:(k + 1) * n]) for k in range(math.ceil(len(one) / n))]
            ok = len(got) == len(want) and all(np.array_equal(g, w) for g, w in zip(got, want))
            if not ok:
                log.append({
                    'hook': tag, 'symbol': sym, 'timeframe': tf, 'one_minute_candles_stored': len(one),
                    'windows_started': len(want), 'candles_seen': len(got),
                    'seen_timestamps': [int((g[0] - one[0, 0]) // 60000) for g in got],
                    'expected_timestamps': [int((w[0] - one[0, 0]) // 60000) for w in want],
                })


def run(routes, data_routes, candles, fast, cfg=None):
    jh.CACHED_CONFIG.clear()
    c = {'starting_balance': 10_000, 'fee': 0, 'type': 'futures', 'futures_leverage': 2,
         'futures_leverage_mode': 'cross', 'exchange': 'Sandbox', 'warm_up_candles': 0}
    c.update(cfg or {})
    research.backtest(c, routes, data_routes, candles, fast_mode=fast)


def random_walk(n, seed, start=T0, price=1000.0):
    rng = np.random.default_rng(seed)
    rows, p = [], price
    for i in range(n):
        o = p
        c = o + rng.normal(0, 0.5)
        h = max(o, c) + abs(rng.normal(0, 0.3))
        l = min(o, c) - abs(rng.normal(0, 0.3))
        rows.append([start + i * 60_000, o, c, h, l, float(rng.integers(1, 100))])
        p = c
    return np.array(rows)


# ---------------------------------------------------------------------------------------------------
# A. liquidation
# ---------------------------------------------------------------------------------------------------
def case_a(fast, crash_minute):
    log = []
    seen = {}

    class A(Strategy):
        def should_long(self):
            return self.index == 0

        def should_short(self):
            return False

        def should_cancel_entry(self):
            return False

        def go_long(self):
            self.buy = 10, self.price  # market order, 10x isolated: liquidated near 90

        def go_short(self):
            pass

        def on_close_position(self, order):
            one = store.candles.get_candles(self.exchange, self.symbol, '1m')
            seen['n_1m'] = len(one)
            seen['n_5m'] = len(self.candles)
            seen['current_candle_minute'] = int((self.current_candle[0] - T0) // 60000)
            seen['last_1m_minute'] = int((one[-1][0] - T0) // 60000)
            observe('on_close_position(liquidation)', log)

    rows = []
    for i in range(23):
        low = 80.0 if i == crash_minute else 99.9
        rows.append([T0 + i * 60_000, 100.0, 100.0, 100.1, low, 10.0])
    candles = {'Sandbox-BTC-USDT': {'exchange': 'Sandbox', 'symbol': 'BTC-USDT', 'candles': np.array(rows)}}
    routes = [{'exchange': 'Sandbox', 'strategy': A, 'symbol': 'BTC-USDT', 'timeframe': '5m'}]
    run(routes, [], candles, fast,
        {'futures_leverage': 10, 'futures_leverage_mode': 'isolated', 'starting_balance': 1000})
    if log:
        FOUND.append(
            f"A [{'fast' if fast else 'step'} simulator, 5m route, price drops to 80 in minute {crash_minute}] "
            f"on_close_position of the liquidation: {seen['n_1m']} one-minute candles are stored "
            f"(last = minute {seen['last_1m_minute']}) => {math.ceil(seen['n_1m'] / 5)} windows started, "
            f"but len(self.candles) == {seen['n_5m']} and self.current_candle starts at minute "
            f"{seen['current_candle_minute']} (the previous window)."
        )
    return log


# ---------------------------------------------------------------------------------------------------
# B. 3D timeframe, session starts 2021-01-01 (day-aligned as jesse's loader does, 18628 days since epoch, 18628 % 3 == 1)
# ---------------------------------------------------------------------------------------------------
def case_b(fast):
    log = []
    final = {}

    class B(Strategy):
        def should_long(self):
            return True

        def should_short(self):
            return False

        def should_cancel_entry(self):
            return True

        def go_long(self):
            self.buy = 0.1, self.price * 0.9998

        def go_short(self):
            pass

        def on_open_position(self, order):
            observe('on_open_position', log)
            self.take_profit = 0.1, self.position.entry_price * 1.0004

        def update_position(self):
            if self.index % 7 == 0:
                self.liquidate()

        def before(self):
            if len(log) < 50:
                observe('before', log)

        def terminate(self):
            observe('terminate', log)
            final['3D'] = np.array(store.candles.get_candles(self.exchange, self.symbol, '3D'), copy=True)
            final['1m'] = np.array(store.candles.get_candles(self.exchange, self.symbol, '1m'), copy=True)

    n = 4320 * 2 + 100
    candles = {'Sandbox-BTC-USDT': {'exchange': 'Sandbox', 'symbol': 'BTC-USDT', 'candles': random_walk(n, 1)}}
    routes = [{'exchange': 'Sandbox', 'strategy': B, 'symbol': 'BTC-USDT', 'timeframe': '1m'}]
    data_routes = [{'exchange': 'Sandbox', 'symbol': 'BTC-USDT', 'timeframe': '3D'}]
    run(routes, data_routes, candles, fast)
    if log:
        first, last = log[0], log[-1]
        FOUND.append(
            f"B [{'fast' if fast else 'step'} simulator, 1m route + 3D data route, session starts 2021-01-01] "
            f"first bad observation in {first['hook']} with {first['one_minute_candles_stored']} 1m candles: "
            f"{first['candles_seen']} 3D rows starting at minutes {first['seen_timestamps']} instead of "
            f"{first['expected_timestamps']}; at terminate ({last['one_minute_candles_stored']} 1m candles) the 3D "
            f"rows start at minutes {last['seen_timestamps']} instead of {last['expected_timestamps']} "
            f"(completed windows never stored: start minutes "
            f"{sorted(set(last['expected_timestamps'][:-1]) - set(last['seen_timestamps']))}; rows that belong to no "
            f"window: {sorted(set(last['seen_timestamps']) - set(last['expected_timestamps']))})."
        )
    return log


# ---------------------------------------------------------------------------------------------------
# C. timeframe routed only for another symbol
# ---------------------------------------------------------------------------------------------------
def case_c(fast):
    log = []

    class C(Strategy):
        def should_long(self):
            return True

        def should_short(self):
            return False

        def should_cancel_entry(self):
            return True

        def go_long(self):
            self.buy = 1, self.price * 0.9997

        def go_short(self):
            pass

        def on_open_position(self, order):
            observe('on_open_position', log)
            self.take_profit = 1, self.position.entry_price * 1.0006
            self.stop_loss = 1, self.position.entry_price * 0.999

        def on_close_position(self, order):
            observe('on_close_position', log)

    candles = {
        'Sandbox-BTC-USDT': {'exchange': 'Sandbox', 'symbol': 'BTC-USDT', 'candles': random_walk(600, 2)},
        'Sandbox-ETH-USDT': {'exchange': 'Sandbox', 'symbol': 'ETH-USDT', 'candles': random_walk(600, 3)},
    }
    routes = [{'exchange': 'Sandbox', 'strategy': C, 'symbol': 'BTC-USDT', 'timeframe': '5m'}]
    data_routes = [{'exchange': 'Sandbox', 'symbol': 'ETH-USDT', 'timeframe': '15m'}]
    run(routes, data_routes, candles, fast)
    if log:
        f = log[0]
        FOUND.append(
            f"C [{'fast' if fast else 'step'} simulator, BTC 5m route + ETH 15m data route] {f['hook']}: "
            f"get_candles('Sandbox', '{f['symbol']}', '{f['timeframe']}') returns {f['candles_seen']} candles while "
            f"{f['one_minute_candles_stored']} one-minute candles are stored ({f['windows_started']} windows started)."
        )
    return log


if __name__ == '__main__':
    for fast in (False, True):
        case_a(fast, crash_minute=9)   # last minute of the window: both simulators
    case_a(True, crash_minute=7)       # any minute of the chunk: fast simulator
    for fast in (False, True):
        case_b(fast)
        case_c(fast)

    if FOUND:
        print('C07 VIOLATED: "a strategy sees exactly one candle per started window, the last one possibly still '
              'forming" / "every candle ... equals the aggregation of the one-minute candles of its aligned window"\n')
        for f in FOUND:
            print(' -', f, '\n')
        sys.exit(1)
    print('no violation reproduced')
    sys.exit(0)
