"""C06 - position events and the trade log are a faithful record of the fills (Engine A).

All candle words x a program menu built around the cases of the quantifier (multi-point entries, partial take-profits with a
full-size stop, stop moved after reductions, liquidate(), forced flip, position open at session end) x fee x leverage x
{futures, spot}; the oracle (vf/fills.py:c06) replays the fills of the trace through a reference position automaton and
compares hook sequence, hook position sizes, closed trades and the wallet identity.
"""
from .. import core, session as S, fills, progs
from ..core import Violation

ID = 'C06'


def programs(tick, unit, kind):
    b = {'tick': tick, 'unit': unit}
    P = [
        ('2leg-entry-all-exits', dict(b, side='long', enter={'when': 'flat', 'legs': [[1, -1], [1, -2]]},
                                      on_open={'sl': 'all', 'tp': 'all', 'sl_d': 3, 'tp_d': 1}, on_increased={'sl': 'all', 'tp': 'all', 'sl_d': 3, 'tp_d': 1}, cancel_entry=False)),
        ('partial-tp-stop-resized', dict(b, side='long', enter={'when': 'flat', 'legs': [[2, 0]]}, on_open={'sl': [[2, 2]], 'tp': [[1, 1], [1, 2]]},
                                         on_reduced={'sl': 'all', 'sl_d': 2}, cancel_entry=True)),
        ('partial-tp-breakeven', dict(b, side='long', enter={'when': 'flat', 'legs': [[2, -1]]}, on_open={'sl': [[2, 2]], 'tp': [[1, 1], [1, 3]]},
                                      on_reduced={'sl': 'breakeven'}, cancel_entry=True)),
        ('decimal-2leg-fixed-exit', dict(b, side='long', enter={'when': 'flat', 'legs': [[0.1, 0], [0.2, -1]]}, on_open={'sl': [[0.1, 4]], 'tp': [[0.1, 3]]},
                                         on_increased={'sl': [[0.3, 4]], 'tp': [[0.3, 2]]}, cancel_entry=False)),
        ('hold-to-end', dict(b, side='long', enter={'when': {'at': [1]}, 'legs': [[1, 0]]}, on_open={'sl': 'all', 'tp': 'all', 'sl_d': 30, 'tp_d': 30}, cancel_entry=True)),
        ('liquidate-at-3', dict(b, side='long', enter={'when': {'at': [0, 4]}, 'legs': [[2, 0]]}, on_open={'sl': 'all', 'tp': 'all', 'sl_d': 4, 'tp_d': 4},
                                update=[{'at': 3, 'liquidate': True}], cancel_entry=True)),
    ]
    # open -> partial exit -> scale back in at another price (market order from inside the fill handler) -> exit of the whole
    P.append(('tp1-reenter', dict(b, side='long', enter={'when': 'flat', 'legs': [[2, 0]]},
                                  on_open={'sl': [[2, 3]], 'tp': [[1, 1], [1, 3]]} if kind == 'futures' else {'tp': [[1, 1], [1, 3]]},
                                  on_reduced={'reenter': [[2, 0]]},
                                  on_increased={'sl': 'all', 'tp': 'all', 'sl_d': 3, 'tp_d': 2} if kind == 'futures' else {'tp': 'all', 'tp_d': 2}, cancel_entry=True)))
    if kind == 'spot':
        P = [x for x in P if x[0] != 'liquidate-at-3']     # spot: liquidate() at a loss next to a resting take-profit is rejected by the exchange model (see DESIGN 6)
    if kind == 'futures':
        P += [
            ('partial-tp-fullsize-stop', dict(b, side='long', enter={'when': 'flat', 'legs': [[2, 0]]}, on_open={'sl': [[2, 2]], 'tp': [[1, 1], [1, 3]]}, cancel_entry=True)),
            ('short-partial-tp-fullsize-stop', dict(b, side='short', enter={'when': 'flat', 'legs': [[2, 0]]}, on_open={'sl': [[2, 2]], 'tp': [[1, 1], [1, 3]]}, cancel_entry=True)),
            ('short-2leg', dict(b, side='short', enter={'when': 'flat', 'legs': [[1, 1], [1, 2]]}, on_open={'sl': 'all', 'tp': 'all', 'sl_d': 2, 'tp_d': 2},
                                on_increased={'sl': 'all', 'tp': 'all', 'sl_d': 2, 'tp_d': 2}, cancel_entry={'after': 2})),
            ('short-tp1-reenter', dict(b, side='short', enter={'when': 'flat', 'legs': [[2, 0]]}, on_open={'sl': [[2, 3]], 'tp': [[1, 1], [1, 3]]},
                                       on_reduced={'reenter': [[2, 0]]}, on_increased={'sl': 'all', 'tp': 'all', 'sl_d': 3, 'tp_d': 2}, cancel_entry=True)),
            ('tp1-liquidate-in-handler', dict(b, side='long', enter={'when': 'flat', 'legs': [[2, 0]]}, on_open={'sl': [[2, 2]], 'tp': [[1, 1], [1, 3]]},
                                              on_reduced={'liquidate': True}, cancel_entry=True)),
            ('flip-at-2', dict(b, side='long', enter={'when': {'at': [0]}, 'legs': [[1, 0]]}, on_open={'sl': 'all', 'tp': 'all', 'sl_d': 6, 'tp_d': 6},
                               update=[{'at': 2, 'flip': 2}], cancel_entry=True)),
        ]
    return P


def build_case(word, prog, kind, fee, lev, fast, emb, prog2=None):
    base, tick, unit = emb
    w = [progs.SHAPES['FLAT']] * 2 + progs.shapes(word) + [progs.SHAPES['FLAT']]
    tf = '3m' if fast else '1m'
    if fast:
        while len(w) % 3:
            w.append(progs.SHAPES['FLAT'])
    rows = S.make_candles(w, base + 20 * tick, tick)
    # leverage >= 50 stands for the isolated-margin configuration (liquidations and fills beyond the bankruptcy price happen there)
    cfg = {'type': kind, 'fee': fee, 'leverage': lev, 'mode': 'isolated' if lev >= 50 else 'cross', 'balance': 100 * (base + 20 * tick) * unit * (3 if prog2 else 1)}
    case = {'cfg': cfg, 'routes': [{'symbol': 'BTC-USDT', 'timeframe': tf, 'spec': prog}], 'candles': {'BTC-USDT': rows.tolist()}, 'fast': fast, 'observe': 0}
    if prog2 is not None:
        mw = [(-g, -d, wd, wu) for (g, d, wu, wd) in w]
        case['routes'].append({'symbol': 'ETH-USDT', 'timeframe': tf, 'spec': prog2})
        case['candles']['ETH-USDT'] = S.make_candles(mw, 2 * base + 20 * tick, tick).tolist()
    return case


def _run(args):
    word, pname, prog, kind, fee, lev, fast, emb = args[:8]
    p2name = args[8] if len(args) > 8 else None
    prog2 = dict(programs(emb[1], emb[2], kind))[p2name] if p2name else None
    case = build_case(word, prog, kind, fee, lev, fast, emb, prog2)
    r = S.run_session(case)
    ident = {'word': list(word), 'program': pname, 'kind': kind, 'fee': fee, 'leverage': lev, 'fast': fast, 'embedding': list(emb), 'program2': p2name}
    out = {'viols': [], 'stats': {}, 'nontrivial': False}
    if r['error']:
        out['viols'].append(Violation('unexpected-exception', {'exc': r['error'][0], 'program': pname}, ident, '%s: %s' % r['error'][:2]).to_json())
        return out
    probs, stats = fills.c06(r['trace'], case, r['end'])
    out['stats'] = stats
    out['nontrivial'] = stats['completed_cycles'] > 0 and stats['hooks'] > 2
    for clause, sig, msg in probs:
        out['viols'].append(Violation(clause, dict(sig, kind=kind), ident, msg).to_json())
    return out


def cases(ctx):
    emb = ctx.embedding
    sigma, n = (progs.SIGMA6, 4) if ctx.quick else (progs.SIGMA8, 5)
    for kind, fees, levs in (('futures', (0.001, 0.0), (3, 1)), ('spot', (0.0,), (1,))):
        P = programs(emb[1], emb[2], kind)
        combos = [(fees[0], levs[0], False), (fees[-1], levs[-1], True)] if ctx.quick else [(fees[0], levs[0], False), (fees[-1], levs[-1], True), (fees[0], levs[-1], True), (fees[-1], levs[0], False)][:4 if kind == 'futures' else 2]
        for fee, lev, fast in combos:
            for pname, prog in P:
                for w in progs.words(sigma, n):
                    yield (w, pname, prog, kind, fee, lev, fast, emb)
                if ctx.quick and kind == 'futures' and not fast:
                    # quick tier: words with a doji (open == close, wicks on both sides) in the candle-by-candle futures sessions only
                    for w in progs.words(sigma + ['DOJI'], n):
                        if 'DOJI' in w:
                            yield (w, pname, prog, kind, fee, lev, fast, emb)
    sigma = progs.SIGMA6 if ctx.quick else progs.SIGMA7
    # isolated margin with high leverage: liquidations, and stops that fill beyond the bankruptcy price
    P = [p for p in programs(emb[1], emb[2], 'futures') if p[0] != 'flip-at-2']
    for lev, fast in ((100, False), (50, True)):
        for pname, prog in P:
            for w in progs.words(sigma, n - 1):
                yield (w, pname, prog, 'futures', 0.001, lev, fast, emb)
    # micro-priced and very expensive symbols: notional (and hence every fee) orders of magnitude away from the usual
    for sc in core.SCALES:
        for fast in (False, True):
            for pname, prog in [p for p in programs(sc[1], sc[2], 'futures') if p[0] != 'flip-at-2']:
                for w in progs.words(sigma, n - 1):
                    yield (w, pname, prog, 'futures', 0.001, 3, fast, sc)
    # two symbols on one wallet: events are per symbol, the wallet identity spans both
    P = [p for p in programs(emb[1], emb[2], 'futures') if p[0] != 'flip-at-2']
    for fast in (False, True):
        for i, (pname, prog) in enumerate(P):
            for w in progs.words(sigma, n - 1):
                yield (w, pname, prog, 'futures', 0.001, 3, fast, emb, P[(i + 3) % len(P)][0])


def run(ctx):
    cov = ctx.coverage
    allc = list(cases(ctx))
    res = core.pmap(_run, allc, chunksize=64)
    sigs = set()
    for c, r in zip(allc, res):
        cov['transitions'] += len(c[0]) + 3
        if r['nontrivial']:
            cov['distinct_nontrivial'] += 1
        for k, v in r['stats'].items():
            ctx.count(k, v)
        for v in r['viols']:
            v = Violation.from_json(v)
            ctx.count('violation:' + v.clause)
            if v.sigkey() in sigs:
                ctx.total_violations += 1
                continue
            sigs.add(v.sigkey())
            ctx.add(v)
    cov['states'] = len(allc)
    cov['traces_validated_against_impl'] = len(allc)
    cov['evaluations'] = len(allc)
    cov['rule'] = 'all candle words x programs x account settings; a session is non-trivial when it completed at least one open..close cycle with more than two position events'
    sigma, n = (progs.SIGMA6 + ['DOJI'], 4) if ctx.quick else (progs.SIGMA8, 5)
    cov['bounds'] = {'alphabet': sigma, 'word_length': n, 'programs': [p for p, _ in programs(1, 1, 'futures')]}
    ctx.sample({'word': list(allc[0][0]), 'program': allc[0][1], 'kind': allc[0][3]})
    ctx.sample({'word': list(allc[-1][0]), 'program': allc[-1][1], 'kind': allc[-1][3]})
    ctx.assumptions += ['a reduce-only order fills at most the open position; the trade log must record what was filled',
                        'a flip is the close of one cycle followed by the open of the next: both hooks are expected']


def replay(case, ctx):
    emb = tuple(case.get('embedding') or ctx.embedding)
    P = dict(programs(emb[1], emb[2], case['kind']))
    r = _run((tuple(case['word']), case['program'], P[case['program']], case['kind'], case['fee'], case['leverage'], case['fast'], emb, case.get('program2')))
    return [Violation.from_json(v) for v in r['viols']]
