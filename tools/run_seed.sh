#!/bin/bash
# usage: tools/run_seed.sh <seed-name> <PROPERTY> [tier]  - applies the patch to /repo, runs the check, reverts.
# The evidence file of the property is saved and restored: evidence committed in /verif only ever comes from the unchanged tree.
name=$1; prop=$2; tier=${3:-quick}
cd /repo && git diff --quiet || { echo "/repo dirty"; exit 2; }
git -C /repo apply /verif/seeded/$name/patch.diff || { echo "patch does not apply"; exit 2; }
cd /verif; cp -f evidence/$prop.json /tmp/evidence_$prop.$$ 2>/dev/null
log=/verif/seeded/$name/check_$prop.log
# a seed that a later repair made harmless keeps the log taken on the tree where it still broke the property
grep -q neutralised_by_repair /verif/seeded/$name/meta.json 2>/dev/null && log=/verif/seeded/$name/check_$prop.current.log
./check $prop --tier $tier > $log 2>&1; rc=$?
git -C /repo checkout -- .
[ -f /tmp/evidence_$prop.$$ ] && mv -f /tmp/evidence_$prop.$$ evidence/$prop.json
echo "$name $prop rc=$rc $(grep -c '^VIOLATION' $log) violation line(s)"; grep -A2 '^VIOLATION' $log | head -6
