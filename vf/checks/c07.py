"""C07 - every timeframe is the exact aggregation of the one-minute candles.

Engine A: sessions over (trading timeframe x data-route timeframes x session-length remainder x position of a mid-window fill x
one/two symbols x warm-up x simulator); at EVERY hook every candle array the strategy can read is compared, inside the session, with
the reference aggregation of the 1m candles stored at that moment (one row per started aligned window), current_candle with its
last row, and after the run the store with the input.  Engine C: the candle helpers for every timeframe and length.
"""
import itertools

import numpy as np

from .. import core, session as S, progs
from ..core import Violation

ID = 'C07'


def TF():
    from jesse.modes.backtest_mode import timeframe_to_one_minutes as T
    return T


# ------------------------------------------------------------------ Engine C: helpers

def _helpers(args):
    tfs, quick = args
    from jesse.services.candle import generate_candle_from_one_minutes, _get_generated_candles
    T = TF()
    out = {'n': 0, 'viols': []}
    seen = set()

    def bad(clause, sig, case, msg):
        k = (clause, repr(sorted(sig.items())))
        if k in seen:
            return
        seen.add(k)
        out['viols'].append(Violation(clause, sig, case, msg).to_json())

    for tf in tfs:
        n = T[tf]
        lengths = list(range(1, 2 * n + 2)) if n <= 60 else [1, 2, n - 1, n, n + 1, 2 * n - 1, 2 * n, 2 * n + 1]
        if quick and n > 15:
            lengths = [1, 2, n - 1, n, n + 1, 2 * n, 2 * n + 1]
        t0 = S.TS0 - S.TS0 % (n * 60000) + n * 60000       # aligned to the timeframe's own windows
        base = S.make_candles([progs.SHAPES[k] for k in ('U2w', 'D1', 'GU', 'D2w', 'U1', 'DOJI', 'GD')] * (2 * n // 7 + 2), 500.0, 0.5, t0=t0)
        for L in lengths:
            rows = base[:L]
            out['n'] += 1
            case = {'helper': 'generate', 'tf': tf, 'length': L}
            want = S.aggregate(rows, 10 ** 9)[0]     # one window
            want[0] = float(rows[0][0])
            for forming in (False, True):
                try:
                    got = generate_candle_from_one_minutes(tf, rows, forming)
                    if not forming and L != n:
                        bad('generate-accepts-wrong-length', {'tf': tf}, case, 'generate_candle_from_one_minutes(%r, %d candles) did not raise' % (tf, L))
                        continue
                except ValueError:
                    if forming or L == n:
                        bad('generate-raises', {'tf': tf}, case, 'generate_candle_from_one_minutes(%r, %d candles, forming=%s) raised' % (tf, L, forming))
                    continue
                d = S.rows_differ([got], [want])
                if d:
                    bad('generate-wrong', {'tf': tf}, case, d)
            # research helper: one row per COMPLETE window
            got = _get_generated_candles(tf, rows)
            want_all = S.aggregate(rows, n)
            # rows start at TS0 (aligned) so index groups are aligned windows
            complete = [w for i, w in enumerate(want_all) if (i + 1) * n <= L]
            d = S.rows_differ(list(got), complete)
            if d:
                bad('get_generated_candles-wrong', {'tf': tf}, dict(case, helper='_get_generated_candles'), d)
    return out


def _inject(args):
    tf_set, L = args
    import jesse.helpers as jh
    from jesse.config import config
    from jesse.routes import router
    from jesse.store import store
    from jesse.services.candle import inject_warmup_candles_to_store
    from .. import acct
    T = TF()
    jh.CACHED_CONFIG.clear()
    config['app']['trading_mode'] = 'backtest'
    config['env']['exchanges'][S.EX] = {'fee': 0, 'type': 'futures', 'balance': 1000, 'futures_leverage': 1, 'futures_leverage_mode': 'cross'}
    router.initiate([{'exchange': S.EX, 'symbol': 'BTC-USDT', 'timeframe': tf_set[0], 'strategy': acct.HarnessStrategy}],
                    [{'exchange': S.EX, 'symbol': 'BTC-USDT', 'timeframe': t} for t in tf_set[1:]])
    store.candles.init_storage(500)
    span = max(T[t] for t in tf_set)
    rows = S.make_candles([progs.SHAPES[k] for k in ('U2w', 'D1', 'GU', 'D2w', 'U1', 'DOJI', 'GD')] * (L // 7 + 1), 500.0, 0.5, t0=S.TS0 - L * 60000)[:L]
    viols = []
    case = {'helper': 'inject_warmup', 'tfs': list(tf_set), 'length': L}
    try:
        inject_warmup_candles_to_store(rows, S.EX, 'BTC-USDT')
    except Exception as e:
        return [Violation('inject-raises', {'exc': type(e).__name__}, case, repr(e)).to_json()]
    for t in set(tf_set) | {'1m'}:
        try:
            got = store.candles.get_candles(S.EX, 'BTC-USDT', t)
        except Exception as e:
            viols.append(Violation('inject-read-raises', {'tf': t, 'exc': type(e).__name__}, case, 'get_candles(%s) after warm-up injection raised %r' % (t, e)).to_json())
            continue
        d = S.rows_differ(list(got), S.aggregate(rows, T[t]))
        if d:
            viols.append(Violation('inject-wrong', {'tf': t}, case, 'after injecting %d warm-up minutes, %s candles: %s' % (L, t, d)).to_json())
    return viols


# ------------------------------------------------------------------ Engine A: sessions

def build(tf, dtfs, two, length, fill_at, fast, warm, emb, side='long', mode=''):
    """mode: '' | 'liq' (isolated 100x: the position is liquidated shortly after the entry fills - the strategy is told from the
    liquidation path) | 'near' (half of the position is closed by an exit a hair above the fill price: routed to MARKET, executed by
    the end-of-minute flush) | 'second-only' (two symbols, the data-route timeframes are routed for the second symbol only but read
    for both)"""
    base, tick, unit = emb
    T = TF()
    syms = S.SYMS[:2] if two else S.SYMS[:1]
    # a dip at minute fill_at fills the limit entry placed one tick below at the step before; zig-zag elsewhere keeps exits busy
    word = []
    # gapping opens (open != previous close): every 7th minute, and on the first minute of the second window of every route timeframe
    gaps = {i for i in range(1, length) if i % 7 == 3} | {T[t] for t in [tf] + list(dtfs) if T[t] < length}
    ng = 0
    for i in range(length):
        if fill_at is not None and i == fill_at:
            word.append(progs.SHAPES['D2w'])
        elif fill_at is not None and i == fill_at + 2:
            word.append(progs.SHAPES['U3'])
        elif i in gaps:
            ng += 1
            word.append(progs.SHAPES['GU'] if ng % 2 else progs.SHAPES['GD'])
        else:
            word.append(progs.SHAPES['U1'] if i % 2 == 0 else progs.SHAPES['D1'])
    candles = {syms[0]: S.make_candles(word, base + 50 * tick, tick).tolist()}
    if two:
        candles[syms[1]] = S.make_candles([(-g, -d, wd, wu) for (g, d, wu, wd) in word], base + 80 * tick, tick).tolist()
    reads = [[s, t] for s in syms for t in sorted({tf, '1m'} | set(dtfs), key=lambda x: T[x])]
    spec = {'tick': tick, 'unit': unit, 'side': side, 'enter': {'when': {'at': [max(0, (fill_at or 1) - 1) // T[tf]]} if fill_at is not None else 'flat', 'legs': [[1, -1]]},
            'on_open': {'sl': 'all', 'tp': 'all', 'sl_d': 6, 'tp_d': 2}, 'cancel_entry': False, 'reads': reads}
    if mode == 'near':
        spec['on_open'] = {'sl': 'all', 'sl_d': 6, 'tp': [[0.5, 0.01], [0.5, 2]]}
    routes = [{'symbol': s, 'timeframe': tf, 'spec': spec} for s in syms]
    droutes = [[s, t] for s in (syms[1:] if mode == 'second-only' else syms) for t in dtfs]
    case = {'cfg': {'type': 'futures', 'fee': 0.0, 'leverage': 2, 'balance': 100 * (base + 80 * tick) * unit}, 'routes': routes, 'data_routes': droutes,
            'candles': candles, 'fast': fast, 'observe': 3}
    if mode == 'liq':
        case['cfg'].update({'leverage': 100, 'mode': 'isolated'})
    if warm:
        span = 1
        for t in [tf] + list(dtfs):
            span = span * T[t] // __import__('math').gcd(span, T[t])     # aligned to EVERY route timeframe
        nw = span * warm
        case['warmup'] = {s: S.make_candles([progs.SHAPES['DOJI'], progs.SHAPES['U1'], progs.SHAPES['D1']] * (nw // 3 + 1), candles[s][0][1], tick,
                                            t0=S.TS0 - nw * 60000)[:nw].tolist() for s in syms}
        case['cfg']['warm_up_candles'] = nw
    return case


def _session(args):
    tf, dtfs, two, length, fill_at, fast, warm, emb = args[:8]
    mode = args[8] if len(args) > 8 else ''
    case = build(tf, dtfs, two, length, fill_at, fast, warm, emb, mode=mode)
    ident = {'tf': tf, 'data_tfs': list(dtfs), 'two_symbols': two, 'length': length, 'fill_at': fill_at, 'fast': fast, 'warmup_windows': warm, 'embedding': list(emb), 'mode': mode}
    S.C07['comparisons'] = 0
    S.C07['forming_seen'] = 0
    r = S.run_session(case)
    out = {'viols': [], 'comparisons': S.C07['comparisons'], 'forming': S.C07['forming_seen'], 'minutes': length}
    T = TF()
    sim = 'fast' if fast else 'normal'
    if r['error']:
        out['viols'].append(Violation('session-raises', {'exc': r['error'][0], 'sim': sim, 'length_multiple_of_tf': length % max(T[t] for t in [tf] + list(dtfs)) == 0},
                                      ident, '%s: %s' % r['error'][:2]).to_json())
        return out
    seen = set()
    for ev in r['trace']:
        if ev[0] != 'c07':
            continue
        _, sym, t, hook, now, clause, where, detail, nwin = ev
        sig = {'sim': sim, 'where': where, 'after_fill_in_window': fill_at is not None and fill_at % T[t] != T[t] - 1 and where == 'other-route',
               'before_first_window_completes': nwin <= 1 and not warm}
        if mode:
            sig['mode'] = mode
            sig['hook'] = hook
        k = (clause, repr(sorted(sig.items())))
        if k in seen:
            continue
        seen.add(k)
        out['viols'].append(Violation(clause, sig, ident, 'hook %s at minute %d reading %s %s: %s' % (hook, (now - S.TS0) // 60000, sym, t, detail)).to_json())
    # after the run: stored series vs input
    st = r['end'].get('stored_candles', {})
    for sym, rows in case['candles'].items():
        inp = [list(x) for x in rows]
        for i in range(1, len(inp)):
            pc = rows[i - 1][2]
            if pc < inp[i][1]:
                inp[i][4] = min(pc, inp[i][4])
            elif pc > inp[i][1]:
                inp[i][3] = max(pc, inp[i][3])
            inp[i][1] = pc
        warm_rows = case.get('warmup', {}).get(sym, [])
        full = [list(x) for x in warm_rows] + inp
        got1 = st.get('%s|1m' % sym)
        if isinstance(got1, str) or got1 is None:
            out['viols'].append(Violation('stored-read-raises', {'sim': sim, 'tf': '1m'}, ident, str(got1)).to_json())
            continue
        # a stored minute is the input row, with or without the documented normalisation of its open (the fast simulator
        # normalises only the first minute of a chunk): accept either form row by row
        raw = [list(x) for x in warm_rows] + [list(x) for x in rows]
        if len(got1) == len(full):
            full = [r if not S.rows_differ([g], [[float(v) for v in r]]) else f for g, r, f in zip(got1, raw, full)]
        d = S.rows_differ(got1, [[float(v) for v in x] for x in full])
        if d:
            out['viols'].append(Violation('stored-1m-differs-from-input', {'sim': sim}, ident, '%s 1m store vs (gap-normalised) input: %s' % (sym, d)).to_json())
        for t in [tf] + list(dtfs):
            gt = st.get('%s|%s' % (sym, t))
            if isinstance(gt, str) or gt is None:
                out['viols'].append(Violation('stored-read-raises', {'sim': sim, 'tf': t}, ident, str(gt)).to_json())
                continue
            d = S.rows_differ(gt, S.aggregate(got1, T[t]))
            if d:
                out['viols'].append(Violation('stored-candles-differ', {'sim': sim, 'tf_is_trading': t == tf}, ident, '%s %s store after the run: %s' % (sym, t, d)).to_json())
    return out


def sessions(ctx):
    emb = ctx.embedding
    T = TF()
    quick = ctx.quick
    jobs = []
    # (1) small timeframes: every remainder, every fill offset, both simulators
    for tf, dtfs in (('1m', ('3m',)), ('1m', ('5m',)), ('3m', ('15m',)), ('5m', ('15m',)), ('1m', ('3m', '15m')), ('3m', ('5m',)), ('15m', ('5m',)), ('5m', ('1m',))):
        span = 1
        for t in (tf,) + dtfs:
            span = span * T[t] // __import__('math').gcd(span, T[t])
        for fast in (False, True):
            rems = range(span) if not quick else sorted({0, 1, span // 2, span - 1})
            for r in rems:
                length = 2 * span + r
                offs = range(span) if (not quick or span <= 5) else sorted({0, 1, 2, span // 2, span - 2, span - 1})
                for off in offs:
                    jobs.append((tf, dtfs, False, length, span + off, fast, 0, emb))
            jobs.append((tf, dtfs, True, 2 * span, span + 1, fast, 0, emb))
            # the strategy is told of a liquidation / of a fill made by the end-of-minute market flush / reads a timeframe that is
            # only routed for the other symbol: entry fills at every offset of a window
            for off in (range(span) if span <= 5 else sorted({0, 1, span // 2, span - 2, span - 1})):
                jobs.append((tf, dtfs, False, 3 * span, span + off, fast, 0, emb, 'liq'))
                jobs.append((tf, dtfs, False, 3 * span, span + off, fast, 0, emb, 'near'))
                jobs.append((tf, dtfs, True, 3 * span, span + off, fast, 0, emb, 'second-only'))
            jobs.append((tf, dtfs, False, 2 * span + 1, span + 2, fast, 2, emb))
            jobs.append((tf, dtfs, True, 3 * span, span + 1, fast, 1, emb))
    # (2) every supported timeframe as trading and as data route
    big = ['30m', '45m', '1h', '2h', '3h', '4h'] + ([] if quick else ['6h', '8h', '12h', '1D'])
    for t in big:
        span = T[t]
        for fast in (False, True):
            jobs.append((t, (), False, 2 * span + (0 if fast else 7), span + 3, fast, 0, emb))
            jobs.append(('15m' if span % 15 == 0 else '5m', (t,), False, 2 * span + (0 if fast else 16), span + 20, fast, 1, emb))
    if not quick:
        jobs.append(('1m', ('5m',), False, 5005, 4990, False, 0, emb))     # crosses the store's 5000-row bucket
        jobs.append(('5m', ('15m',), False, 5010, 4990, True, 0, emb))
        jobs.append(('1m', ('15m',), False, 10010, 10000, False, 0, emb))   # ... and twice the bucket
        jobs.append(('5m', ('15m',), False, 10010, 10000, True, 0, emb))
    return jobs


def run(ctx):
    cov = ctx.coverage
    T = TF()
    tfs = list(T)
    sigs = set()

    def take(vs):
        for v in vs:
            v = Violation.from_json(v)
            ctx.count('violation:' + v.clause)
            if v.sigkey() in sigs:
                ctx.total_violations += 1
                continue
            sigs.add(v.sigkey())
            ctx.add(v)

    for r in core.pmap(_helpers, [([t], ctx.quick) for t in tfs], chunksize=1):
        cov['transitions'] += r['n']
        ctx.count('helper-cases', r['n'])
        take(r['viols'])
    inj = []
    for tf_set in (('5m',), ('3m', '15m'), ('15m', '1h'), ('1m', '45m'), ('30m', '4h')):
        span = max(T[t] for t in tf_set)
        for L in sorted({span, 2 * span, 3 * span}):
            inj.append((tf_set, L))
    for vs in core.pmap(_inject, inj, chunksize=1):
        take(vs)
    ctx.count('warmup-injections', len(inj))
    jobs = sessions(ctx)
    jobs.sort(key=lambda j: -j[3])      # longest sessions first: the 10010-minute ones are a serial tail otherwise
    res = core.pmap(_session, jobs, chunksize=4 if ctx.quick else 1)
    for j, r in zip(jobs, res):
        cov['transitions'] += r['minutes']
        ctx.count('array-comparisons-at-hooks', r['comparisons'])
        ctx.count('comparisons-with-forming-candle', r['forming'])
        if r['forming']:
            cov['distinct_nontrivial'] += 1
        take(r['viols'])
    cov['states'] = len(jobs) + len(inj) + cov['outcomes'].get('helper-cases', 0)
    cov['traces_validated_against_impl'] = cov['states']
    cov['evaluations'] = cov['states']
    cov['rule'] = ('sessions: timeframe pairs x remainder x mid-window fill offset x simulator (+ two symbols, warm-up, every supported timeframe); a session is non-trivial '
                   'when at least one comparison saw a forming (incomplete) window; helper cases: every timeframe x every length up to 2*tf+1')
    cov['bounds'] = {'sessions': len(jobs), 'timeframes': tfs if not ctx.quick else tfs[:12], 'helper_lengths': '1..2*tf+1 for tf<=60 (quick: corners above 15m)'}
    ctx.sample({'tf': jobs[0][0], 'data_tfs': list(jobs[0][1]), 'length': jobs[0][3], 'fill_at': jobs[0][4], 'fast': jobs[0][5]})
    ctx.sample({'tf': jobs[-1][0], 'data_tfs': list(jobs[-1][1]), 'length': jobs[-1][3], 'fill_at': jobs[-1][4], 'fast': jobs[-1][5]})
    ctx.assumptions += ['session starts and warm-up lengths are aligned to every route timeframe (as jesse\'s candle loader guarantees)',
                        'the reference is the aggregation of the 1m candles AS STORED at the moment of the read (partial minutes included)']


def replay(case, ctx):
    if 'helper' in case:
        if case['helper'] == 'inject_warmup':
            return [Violation.from_json(v) for v in _inject((tuple(case['tfs']), case['length']))]
        return [Violation.from_json(v) for v in _helpers(([case['tf']], False))['viols'] if v['case'].get('length') == case['length']]
    r = _session((case['tf'], tuple(case['data_tfs']), case['two_symbols'], case['length'], case['fill_at'], case['fast'], case['warmup_windows'], tuple(case.get('embedding') or ctx.embedding), case.get('mode', '')))
    return [Violation.from_json(v) for v in r['viols']]
