import json,sys
pid, wt = sys.argv[1], sys.argv[2]
for l in open('/verif/properties.jsonl'):
    p=json.loads(l)
    if p['id']==pid: break
known={
 'C06':"a position FLIP inside one fill (a non-reduce-only order larger than the open position) is already known to break the hook sequence / trade log - do not report flips.",
 'C10':"a stop-loss on the profit side / take-profit on the loss side declared together with the entry being replaced by a market order is already known (intended by the maintainers).",
 'C13':"rma, dx and er are already known to be non-causal.",
 'C14':"squeeze_momentum's momentum_signal having n-1 entries is already known.",
 'C17':"with fee 0 the all-in quantity of size_to_qty costing one float ulp more than the capital (and being rejected) is already known.",
}
print(f"""You are auditing the open-source Python project jesse (jesse-ai/jesse, a crypto algo-trading backtesting framework) against ONE semantic property. The code in your worktree {wt} is the current, unmodified code. Your job: try hard to find a GENUINE COUNTEREXAMPLE - a concrete input, configuration, strategy program or operation history on which the real code VIOLATES the property stated below - and demonstrate it with a small standalone program. Work ONLY inside {wt} (never touch /repo or /verif, do not read anything under /verif, do not modify jesse's source).

THE PROPERTY ({pid}: {p['title']})
Statement: {p['statement']}
Quantified over: {p['quantifier']['text']}
Code it is anchored in: {', '.join(p['anchors']['files'])}
Mechanisms: {'; '.join(m['name']+' @ '+m.get('where','') for m in p['anchors']['mechanism'])}
{('Already known, do NOT report: '+known[pid]) if pid in known else ''}

HOW TO WORK
1. Read the anchored code and everything it calls. Look for boundary conditions, float-vs-decimal arithmetic, ordering assumptions, branches that differ between the normal and the fast simulator (research.backtest(..., fast_mode=True)), spot vs futures, isolated vs cross margin, short vs long, multi-route sessions, unusual timeframes, price scales from 1e-6 to 1e6, zero fee, empty / single-element / NaN-containing inputs, parameter combinations the defaults never exercise.
2. For each suspicion write a quick experiment against the REAL code and run it (`cd {wt} && /venv/bin/python your_script.py`; with cwd={wt} the `jesse` package is imported from the worktree). Outside pytest `jesse.helpers.is_unit_testing()` is False; `jesse.research.backtest(config, routes, data_routes, candles, warmup_candles=None, fast_mode=False, hyperparameters=None)` is the isolated backtest entry point: config = {{'starting_balance':..., 'fee':..., 'type':'futures'|'spot', 'futures_leverage':..., 'futures_leverage_mode':'cross'|'isolated', 'exchange':'Sandbox', 'warm_up_candles':0}}; routes = [{{'exchange':'Sandbox','strategy':StrategyClass,'symbol':'BTC-USDT','timeframe':'1m'}}]; candles = {{'Sandbox-BTC-USDT': {{'exchange':'Sandbox','symbol':'BTC-USDT','candles': numpy array of [timestamp_ms, open, close, high, low, volume] 1m rows starting e.g. at 1609459200000}}}}. Call `jesse.helpers.CACHED_CONFIG.clear()` before each session in a standalone script. No network is available.
3. A counterexample must be a violation of the property AS STATED (not a matter of taste, not a different property), must not rely on modifying jesse, and must be reproducible. Judge carefully whether the behaviour really contradicts the statement; quote the clause it contradicts.
4. If you find one (or several different ones), write {wt}/audit_{pid}.py that exits 1 and prints a short explanation when the violation occurs (exit 0 otherwise), and {wt}/AUDIT.md describing: the clause violated, the exact input, what the code does vs. what the property demands, and where in the code it happens (file:function) with a suggested minimal fix.
5. If after a thorough effort (at least 8-10 distinct experiments in different corners) you find nothing, write {wt}/AUDIT.md listing what you tried and why each corner holds. That is a perfectly good outcome - do NOT invent a violation.

Report back a short summary: violation found (yes/no), the clause, the input, the code location.""")
