import json,sys
pid, wt = sys.argv[1], sys.argv[2]
variant = sys.argv[3] if len(sys.argv) > 3 else ''
for l in open('/verif/properties.jsonl'):
    p=json.loads(l)
    if p['id']==pid: break
print(f"""You are helping to evaluate a verification harness for the open-source Python project jesse (jesse-ai/jesse, a crypto algo-trading backtesting framework). Your job: write ONE realistic, subtle bug ("seeded change") into jesse's source that BREAKS the semantic property stated below, while the project still imports and its existing test suite still passes. Work ONLY inside your own git worktree of the repository at {wt} (never touch /repo or /verif, and do not read anything under /verif).

THE PROPERTY ({pid}: {p['title']})
Statement: {p['statement']}
Quantified over: {p['quantifier']['text']}
Why the existing tests cannot settle it: {p['why_tests_cant']}
Code it is anchored in: {', '.join(p['anchors']['files'])}
Mechanisms: {'; '.join(m['name']+' @ '+m.get('where','') for m in p['anchors']['mechanism'])}

REQUIREMENTS FOR THE CHANGE
1. It must be a plausible developer mistake or "optimisation" in jesse's own source under {wt}/jesse (1-15 changed lines, one or two sites), not a blatant sabotage; it must not touch tests.
2. It must need something SPECIFIC to manifest: a particular multi-step sequence of operations, an unusual input / boundary value, a particular ordering, a particular configuration, or two cooperating sites that each look fine alone. Ordinary use (and the existing test-suite) must NOT expose it at once. {variant}
3. The existing test suite must still pass with the change. Run it from the worktree: `cd {wt} && /venv/bin/python -m pytest -q -p no:cacheprovider -x --timeout=900` (takes ~1-2 min; with cwd={wt} the `jesse` package is imported from the worktree, verify with `cd {wt} && /venv/bin/python -c "import jesse; print(jesse.__file__)"`). All 438 tests must pass. No network is available.
4. Write a demonstration: a small standalone Python program {wt}/demo_{pid}.py (run as `cd {wt} && /venv/bin/python demo_{pid}.py`) that exercises the real jesse code and exits 0 when the property holds on its scenario and exits non-zero (with a short explanation printed) when it is violated. It must FAIL with your change and PASS without it (check both: `git stash` / `git stash pop` or `git diff > /tmp/x.patch; git checkout -- jesse; ...`). Note: outside pytest `jesse.helpers.is_unit_testing()` is False; `jesse.research.backtest(config, routes, data_routes, candles, fast_mode=...)` is the isolated backtest entry point (strategies may be passed as classes in routes; candles is a dict keyed "<exchange>-<symbol>" with 'exchange','symbol','candles' (numpy array of [timestamp_ms, open, close, high, low, volume] 1m rows, start e.g. 1609459200000)); the working directory must not contain both a strategies/ and a storage/ directory or jesse thinks it is inside a project — the worktree root is fine? It contains storage/ but no strategies/, so it is fine. If `jesse.helpers.get_config` caching gets in your way in a standalone script, call `jesse.helpers.CACHED_CONFIG.clear()` before each session.
5. When done, leave in the worktree: the uncommitted source change (so `git -C {wt} diff -- jesse` shows it), demo_{pid}.py, and a file {wt}/SEEDED.md with: what you changed and why it breaks the property, what it needs in order to manifest, the exact commands you ran and their outcomes (tests with change: pass count; demo with change: fails; demo without change: passes).

Do not commit. Do not create other worktrees. Be efficient: read the anchored code first, pick the site, make the change, run the demo both ways, run the test-suite once. Report back a 5-line summary (files changed, what manifests it, test result, demo results).""")
