#!/bin/bash
# Offline setup after a fresh restore: nothing to fetch or build; warm the private numba cache.
cd "$(dirname "$(readlink -f "$0")")" || exit 1
mkdir -p .cache/numba evidence replays
export PYTHONHASHSEED=0 NUMBA_BOUNDSCHECK=1 NUMBA_CACHE_DIR=/verif/.cache/numba TZ=UTC PIP_NO_INDEX=1 PYTHONDONTWRITEBYTECODE=1 PYTHONWARNINGS=ignore
/venv/bin/python -c "import jesse.helpers, jesse.research, jesse.indicators; print('jesse imports from', jesse.helpers.__file__)" || exit 1
if [ -f vf/warm.py ]; then /venv/bin/python -m vf.warm || exit 1; fi
echo setup ok
