"""ENGINE A - whole research.backtest sessions with harness-side monitors.

run_session(case) executes one real session (normal or fast simulator) and returns a trace: a list of
plain tuples in program order (see DESIGN 8.1).  Monitors are wrappers installed once per process around
public seams (Order.__init__/execute/cancel, CandlesState.add_candle/add_multiple_1m_candles,
save_daily_portfolio_balance, _generate_outputs) - no change to jesse's sources.
"""
import hashlib
import math

import numpy as np

TS0 = 1609459200000      # 2021-01-01 00:00 UTC, aligned to every timeframe up to 1D
EX = 'Sandbox'
SYMS = ('BTC-USDT', 'ETH-USDT')

TRACE = []
ORDERS = []              # order objects in submission order (oid = index)
SPECS = {}               # route symbol -> program spec
STATE = {'in_exec': 0, 'installed': False, 'observe': 1, 'end': None}


def now():
    from jesse.store import store
    return store.app.time


def _snapshot():
    from jesse.store import store
    ex = list(store.exchanges.storage.values())[0]
    snap = [tuple(sorted((a, repr(v)) for a, v in ex.assets.items()))]
    for k, p in sorted(store.positions.storage.items()):
        snap.append((k, repr(p.qty), repr(p.entry_price)))
    snap.append(len(store.completed_trades.trades))
    for k, t in sorted(store.completed_trades.tempt_trades.items()):
        snap.append((k, len(t.orders), t.buy_orders.index, t.sell_orders.index))
    if ex.type == 'futures':
        for a in sorted(ex.buy_orders):
            snap.append((a, ex.buy_orders[a].index, ex.sell_orders[a].index, repr(ex.available_assets.get(a))))
        snap.append(repr(ex.available_margin))
    return tuple(snap)


FROZEN = {}


def _order_fields(o):
    return {k: getattr(o, k, None) for k in ('qty', 'price', 'status', 'side', 'type', 'reduce_only', 'symbol', 'executed_at', 'canceled_at')}


def install():
    if STATE['installed']:
        return
    STATE['installed'] = True
    from jesse.models import Order
    from jesse.store.state_candles import CandlesState
    from jesse.modes import backtest_mode
    import jesse.services.selectors as selectors

    o_init, o_exec, o_cancel = Order.__init__, Order.execute, Order.cancel

    def w_init(self, attributes=None, should_silent=False, **kw):
        a = attributes or {}
        p = selectors.get_position(a.get('exchange'), a.get('symbol'))
        cur = p.current_price if p is not None else None
        try:
            o_init(self, attributes, should_silent, **kw)
        except Exception as e:
            TRACE.append(('reject', a.get('symbol'), a.get('type'), a.get('side'), a.get('qty'), a.get('price'), bool(a.get('reduce_only')),
                          now(), type(e).__name__))
            raise
        self._vf_oid = len(ORDERS)
        ORDERS.append(self)
        TRACE.append(('submit', self._vf_oid, self.symbol, self.type, self.side, self.qty, self.price, bool(self.reduce_only), now(), cur,
                      STATE['in_exec'] > 0))

    def w_exec(self, silent=False):
        oid = getattr(self, '_vf_oid', -1)
        final = not self.is_active
        before = _snapshot() if final else None
        pos = selectors.get_position(self.exchange, self.symbol)
        TRACE.append(('exec', oid, now(), final, pos.qty if pos is not None else None))
        STATE['in_exec'] += 1
        try:
            o_exec(self, silent)
        finally:
            STATE['in_exec'] -= 1
        if final:
            after = _snapshot()
            if before != after or not (self.is_canceled or self.is_executed):
                TRACE.append(('final-call-effect', oid, 'execute', [x for x in zip(before, after) if x[0] != x[1]][:3]))
        elif not self.is_active and oid >= 0:
            FROZEN[oid] = _order_fields(self)       # what the order looks like at the moment it became final
        TRACE.append(('exec_done', oid, pos.qty if pos is not None else None))

    def w_cancel(self, silent=False, source=''):
        oid = getattr(self, '_vf_oid', -1)
        final = not self.is_active
        before = _snapshot() if final else None
        TRACE.append(('cancel', oid, now(), final))
        o_cancel(self, silent, source)
        if not final and not self.is_active and oid >= 0:
            FROZEN[oid] = _order_fields(self)
        if final:
            after = _snapshot()
            if before != after:
                TRACE.append(('final-call-effect', oid, 'cancel', [x for x in zip(before, after) if x[0] != x[1]][:3]))

    Order.__init__, Order.execute, Order.cancel = w_init, w_exec, w_cancel

    c_add, c_mult = CandlesState.add_candle, CandlesState.add_multiple_1m_candles

    def w_add(self, candle, exchange, symbol, timeframe, *a, **kw):
        TRACE.append(('candle', symbol, timeframe, int(candle[0]), float(candle[1]), float(candle[2]), float(candle[3]), float(candle[4]), float(candle[5])))
        return c_add(self, candle, exchange, symbol, timeframe, *a, **kw)

    def w_mult(self, candles, exchange, symbol):
        TRACE.append(('candles', symbol, int(candles[0][0]), len(candles)))
        return c_mult(self, candles, exchange, symbol)

    CandlesState.add_candle, CandlesState.add_multiple_1m_candles = w_add, w_mult

    s_daily = backtest_mode.save_daily_portfolio_balance

    def w_daily(is_initial=False):
        from jesse.store import store
        s_daily(is_initial)
        TRACE.append(('equity', now(), float(store.app.daily_balance[-1]), _equity_reference()))

    backtest_mode.save_daily_portfolio_balance = w_daily

    m_exec = backtest_mode._execute_market_orders

    def w_market():
        # called by both simulators right after every route's strategy ran and its active list was pruned: at this moment the
        # orders reported as active must be exactly the non-final ones, for EVERY trading symbol
        from jesse.store import store
        from jesse.routes import router
        for r in ([] if STATE.get('terminating') else router.routes):     # (the forced close at session end does not prune)
            act = store.orders.get_active_orders(r.exchange, r.symbol)
            stale = [getattr(o, '_vf_oid', -1) for o in act if not o.is_active]
            have = {id(o) for o in act}
            missing = [o._vf_oid for o in ORDERS if o.symbol == r.symbol and o.is_active and id(o) not in have]
            if stale or missing:
                TRACE.append(('active-list', r.symbol, now(), stale, missing))
        TRACE.append(('step-end', now()))
        return m_exec()

    backtest_mode._execute_market_orders = w_market

    g_out = backtest_mode._generate_outputs

    def w_out(*a, **kw):
        from jesse.store import store
        ex = list(store.exchanges.storage.values())[0]
        trades = []
        for t in store.completed_trades.trades:
            trades.append({'symbol': t.symbol, 'type': t.type, 'qty': float(t.qty), 'entry': float(t.entry_price), 'exit': float(t.exit_price),
                           'opened_at': t.opened_at, 'closed_at': t.closed_at, 'orders': [getattr(o, '_vf_oid', -1) for o in t.orders],
                           'pnl': float(t.pnl), 'fee': float(t.fee)})
        res = g_out(*a, **kw)
        STATE['end'] = {'trades': trades, 'assets': dict(ex.assets), 'liquidations': store.app.total_liquidations,
                        'daily_balance': [float(x) for x in store.app.daily_balance], 'starting': dict(ex.starting_assets),
                        'positions': {k: (p.qty, p.entry_price) for k, p in store.positions.storage.items()},
                        'metrics': res.get('metrics'),
                        'open_trades': {k: [getattr(o, '_vf_oid', -1) for o in t.orders] for k, t in store.completed_trades.tempt_trades.items()},
                        'final_statuses': [o.status for o in ORDERS], 'via': [getattr(o, 'submitted_via', None) for o in ORDERS],
                        # an order that reached a final state must look the same at the end of the session
                        'final_changed': [(oid, k, v, getattr(ORDERS[oid], k, None)) for oid, snap in sorted(FROZEN.items()) if oid < len(ORDERS)
                                          for k, v in snap.items() if getattr(ORDERS[oid], k, None) != v]}
        if STATE['observe'] == 3:
            from jesse.routes import router
            stored = {}
            alltf = {r['timeframe'] for r in router.all_formatted_routes} | {'1m'}     # every considered timeframe is stored for every symbol
            for r in router.all_formatted_routes:
                for tf in alltf:
                    try:
                        stored['%s|%s' % (r['symbol'], tf)] = store.candles.get_candles(r['exchange'], r['symbol'], tf).tolist()
                    except Exception as e:
                        stored['%s|%s' % (r['symbol'], tf)] = 'EXC:%s:%s' % (type(e).__name__, e)
            STATE['end']['stored_candles'] = stored
        return res

    backtest_mode._generate_outputs = w_out


def _equity_reference():
    """Account equity computed independently of jesse's sampling code: futures = wallet + sum of unrealised PnL;
    spot = free quote + quote reserved by resting buy orders + market value of held base."""
    from jesse.store import store
    ex = list(store.exchanges.storage.values())[0]
    q = ex.settlement_currency
    if ex.type == 'futures':
        v = ex.assets[q]
        for p in store.positions.storage.values():
            if p.qty != 0 and p.entry_price is not None and p.current_price is not None:
                v += (p.current_price - p.entry_price) * p.qty
        return float(v)
    v = ex.assets[q]
    for o in ORDERS:
        if o.is_active and o.side == 'buy':
            v += abs(o.qty) * o.price
    for k, p in store.positions.storage.items():
        base = k.split('-')[1]
        if p.current_price is not None:
            v += ex.assets.get(base, 0) * p.current_price
    return float(v)


# ------------------------------------------------------------------ candles

def make_candles(word, base, tick, start_price_ticks=0, t0=TS0, vol=10.0):
    """word: sequence of shapes (gap, dclose, upper wick, lower wick) in ticks. Returns float array rows
    [ts, open, close, high, low, volume]."""
    rows = []
    p = start_price_ticks
    for i, sh in enumerate(word):
        gap, dc, wu, wd = sh
        o = p + gap
        c = o + dc
        h = max(o, c) + wu
        l = min(o, c) - wd
        rows.append([t0 + i * 60000, base + o * tick, base + c * tick, base + h * tick, base + l * tick, vol + i])
        p = c
    return np.array(rows, dtype=float)


def normalised_ranges(candles):
    """Per minute (low, high) after the documented normalisation of a gapping open to the previous close."""
    out = []
    for i, r in enumerate(candles):
        lo, hi = r[4], r[3]
        if i > 0:
            pc = candles[i - 1][2]
            lo, hi = min(lo, pc), max(hi, pc)
        out.append((float(lo), float(hi)))
    return out


# ------------------------------------------------------------------ scripted strategy

def digest(arr):
    a = np.ascontiguousarray(arr, dtype=float)
    return hashlib.blake2b(a.tobytes(), digest_size=8).hexdigest() + ':%d' % len(a)


C07 = {'comparisons': 0, 'forming_seen': 0}


def aggregate(rows_1m, tf_minutes):
    """reference aggregation: one row per started aligned window"""
    out = []
    win = None
    span = tf_minutes * 60000
    for r in rows_1m:
        w = int(r[0]) - int(r[0]) % span
        if w != win:
            out.append([float(w), float(r[1]), float(r[2]), float(r[3]), float(r[4]), float(r[5])])
            win = w
        else:
            o = out[-1]
            o[2] = float(r[2])
            o[3] = max(o[3], float(r[3]))
            o[4] = min(o[4], float(r[4]))
            o[5] += float(r[5])
    return out


def rows_differ(got, want):
    if len(got) != len(want):
        return 'row count %d, aggregation of the stored 1m candles has %d windows' % (len(got), len(want))
    for i, (g, w) in enumerate(zip(got, want)):
        for j in range(5):
            if float(g[j]) != w[j]:
                return 'row %d of %d (window %d): %s, aggregation gives %s' % (i, len(want), int(w[0] - TS0) // 60000, [float(x) for x in g], w)
        if abs(float(g[5]) - w[5]) > 1e-9 * max(1.0, abs(w[5])):
            return 'row %d volume %r, aggregation gives %r' % (i, float(g[5]), w[5])
    return None


def _c07_compare(strategy, hook):
    from jesse.store import store
    from jesse.modes.backtest_mode import timeframe_to_one_minutes as T
    for (sym, tf) in strategy.spec.get('reads', []):
        one = store.candles.get_candles(strategy.exchange, sym, '1m')
        want = aggregate(one, T[tf])
        C07['comparisons'] += 1
        where = 'trading-route' if (sym == strategy.symbol and tf == strategy.timeframe) else 'other-route'
        try:
            got = strategy.get_candles(strategy.exchange, sym, tf)
        except Exception as e:
            TRACE.append(('c07', sym, tf, hook, now(), 'get_candles-raises', where, '%s: %s' % (type(e).__name__, str(e)[:100]), len(want)))
            continue
        if len(one) % T[tf]:
            C07['forming_seen'] += 1
        d = rows_differ(got, want)
        if d:
            TRACE.append(('c07', sym, tf, hook, now(), 'candles-differ', where, d, len(want)))
        if sym == strategy.symbol and tf == strategy.timeframe and len(want):
            cur = strategy.current_candle
            d = rows_differ([cur], [want[-1]])
            if d:
                TRACE.append(('c07', sym, tf, hook, now(), 'current-candle-differs', where, d, len(want)))


def _strategy_base():
    from jesse.strategies import Strategy

    class ScriptedStrategy(Strategy):
        """Deterministic program driven by SPECS[symbol]; it only ever reads what jesse shows it."""

        @property
        def spec(self):
            return SPECS[self.symbol]

        def hyperparameters(self):
            # declared only for sessions that ask for it (spec key 'declare_hp'); the values never influence the program
            if SPECS and any(sp.get('declare_hp') for sp in SPECS.values()):
                return [{'name': 'vf_a', 'type': int, 'min': 1, 'max': 9, 'default': 5},
                        {'name': 'vf_b', 'type': float, 'min': 0.1, 'max': 0.9, 'default': 0.5}]
            return []

        # -- observation
        def _log(self, name, extra=None):
            lvl = STATE['observe']
            p = self.position
            if lvl == 0:
                TRACE.append(('hook', self.symbol, name, now(), self.index, p.qty))
                return
            try:
                price = float(self.price)
            except Exception as e:
                price = 'EXC:' + type(e).__name__
            ev = ['hook', self.symbol, name, now(), self.index, p.qty, p.entry_price, price,
                  float(self.balance), float(self.available_margin)]
            if lvl == 3:
                _c07_compare(self, name)
                TRACE.append(('hook', self.symbol, name, now(), self.index, p.qty))
                return
            if lvl >= 2:
                views = {}
                for (sym, tf) in self.spec.get('reads', []) + [(self.symbol, self.timeframe)]:
                    try:
                        c = self.get_candles(self.exchange, sym, tf)
                        views['%s|%s' % (sym, tf)] = (digest(c), [float(x) for x in c[-1]] if len(c) else None)
                    except Exception as e:
                        views['%s|%s' % (sym, tf)] = 'EXC:' + type(e).__name__
                ev.append(views)
                from jesse.store import store
                ev.append(tuple(getattr(o, '_vf_oid', -1) for o in store.orders.get_orders(self.exchange, self.symbol) if o.is_active))
            if extra is not None:
                ev.append(extra)
            TRACE.append(tuple(ev))

        def before(self):
            self._log('before')
            if self.spec.get('shared'):
                # the documented channel between routes: whatever an earlier route / step (or an earlier SESSION) left in it
                TRACE.append(('shared', self.symbol, now(), sorted((str(k), repr(v)) for k, v in self.shared_vars.items())))
                self.shared_vars[self.symbol] = self.index
            if self.spec.get('indicator'):
                # a non-sequential, recursive indicator: its value depends on how many candles the framework lets it see
                import jesse.indicators as ta
                try:
                    v = float(ta.ema(self.candles, period=3))
                except Exception as e:
                    v = 'EXC:' + type(e).__name__
                TRACE.append(('ind', self.symbol, now(), v, len(self.candles)))

        def after(self):
            decl = None
            if self.position.is_open and STATE['observe'] >= 1:
                decl = {'sl': None if self.stop_loss is None else np.array(self._stop_loss, dtype=float).tolist() if self._stop_loss is not None else None,
                        'tp': None if self.take_profit is None else np.array(self._take_profit, dtype=float).tolist() if self._take_profit is not None else None}
            if self.spec.get('log_declare'):
                from jesse.store import store
                act = [(getattr(o, '_vf_oid', -1), o.submitted_via, o.type, o.side, o.qty, o.price, bool(o.reduce_only))
                       for o in store.orders.get_orders(self.exchange, self.symbol) if o.is_active]
                TRACE.append(('after-state', self.symbol, now(), self.index, self.position.qty, act, decl))
            self._log('after', decl)
            if isinstance(self.spec.get('raise'), dict) and self.spec['raise'].get('after_at') == self.index:
                # fails in the step that queued a market order, before the framework executes it
                raise RuntimeError('scripted failure')

        # -- decisions
        def _wants_entry(self):
            w = self.spec['enter']['when']
            if w == 'flat':
                return True
            if w in ('bullish', 'bearish'):
                # decisions that depend on the SHAPE of the completed trading candle (its open against its close)
                c = self.current_candle
                return (c[2] > c[1]) if w == 'bullish' else (c[2] < c[1])
            if w == 'bullish1m':
                # ... of the newest ONE-MINUTE candle (its open against its close)
                c1 = self.get_candles(self.exchange, self.symbol, '1m')
                return len(c1) > 0 and c1[-1][2] > c1[-1][1]
            if w == 'breakout':
                # ... and on its high against the previous candle's high
                cs = self.candles
                return len(cs) >= 2 and cs[-1][3] > cs[-2][3]
            return self.index in w['at']

        def should_long(self):
            r = self.spec['side'] == 'long' and self._wants_entry()
            self._log('should_long', r)
            return r

        def should_short(self):
            r = self.spec['side'] == 'short' and self._wants_entry()
            return r

        def should_cancel_entry(self):
            ce = self.spec.get('cancel_entry', True)
            if isinstance(ce, dict):
                r = self.index >= self._entry_index + ce['after']
            else:
                r = bool(ce)
            self._log('should_cancel_entry', r)
            return r

        def _px(self, ref, off):
            if self.spec.get('rel'):
                return ref * (1 + off)
            return ref + off * self.spec['tick']

        def _declared(self, kind, rows, site):
            if self.spec.get('log_declare'):
                TRACE.append(('declare', self.symbol, kind, [[float(q), float(p)] for q, p in rows], now(), float(self.price), site,
                              self.position.qty, self.position.entry_price))

        def _exits(self, which, ref, legs):
            """legs: [[qty, d]] d ticks on the profit side for tp / on the loss side for sl."""
            sgn = 1 if self.spec['side'] == 'long' else -1
            if which == 'sl':
                sgn = -sgn
            return [(q * self.spec['unit'], self._px(ref, sgn * d)) for q, d in legs]

        def _declare_entry(self):
            s = self.spec
            self._entry_index = self.index
            legs = [(q * s['unit'], self._px(self.price, off)) for q, off in s['enter']['legs']]
            if s['side'] == 'long':
                self.buy = legs if len(legs) > 1 else legs[0]
            else:
                self.sell = legs if len(legs) > 1 else legs[0]
            self._declared('entry', legs, 'go')
            ae = s.get('at_entry')
            if ae:
                ref = legs[0][1]
                if ae.get('sl'):
                    self.stop_loss = self._exits('sl', ref, ae['sl'])
                    self._declared('sl', self.stop_loss, 'go')
                if ae.get('tp'):
                    self.take_profit = self._exits('tp', ref, ae['tp'])
                    self._declared('tp', self.take_profit, 'go')
            self._log('go', {'buy': legs})

        def go_long(self):
            self._declare_entry()

        def go_short(self):
            self._declare_entry()

        def _apply_exits(self, d, ref, site=''):
            if not d:
                return
            for which in ('sl', 'tp'):
                v = d.get(which)
                if v is None or v == 'keep':
                    continue
                if v == 'breakeven':
                    legs = [(abs(self.position.qty), self.position.entry_price)]
                elif v == 'all':
                    dd = d.get(which + '_d', 2)
                    legs = self._exits(which, ref, [[abs(self.position.qty) / self.spec['unit'], dd]])
                else:
                    legs = self._exits(which, ref, v)
                if which == 'sl':
                    self.stop_loss = legs
                else:
                    self.take_profit = legs
                self._declared(which, legs, site)

        def _log_liq(self):
            if self.spec.get('log_liq'):
                p = self.position
                TRACE.append(('liq', self.symbol, now(), float(p.liquidation_price), float(p.bankruptcy_price), p.entry_price, p.qty))

        def _react(self, d, site):
            """market orders submitted from inside a fill handler: {'liquidate': True} | {'reenter': [[qty, offset]]} (once per trade)"""
            if not d:
                return
            if d.get('liquidate'):
                self.liquidate()
                if self.spec.get('log_declare'):
                    which = 'tp' if self.position.pnl > 0 else 'sl'
                    self._declared(which, [(abs(self.position.qty), self.price)], 'liquidate')
            elif d.get('reenter') and not getattr(self, '_reentered', False):
                self._reentered = True
                s = self.spec
                legs = [(q * s['unit'], self._px(self.price, off)) for q, off in d['reenter']]
                if s['side'] == 'long':
                    self.buy = legs if len(legs) > 1 else legs[0]
                else:
                    self.sell = legs if len(legs) > 1 else legs[0]
                self._declared('entry', legs, site)

        def on_open_position(self, order):
            self._reentered = False
            self._tp_placed = False
            self._log('on_open_position', getattr(order, '_vf_oid', -1))
            self._log_liq()
            self._apply_exits(self.spec.get('on_open'), self.position.entry_price, 'on_open_position')
            if self.spec.get('raise') == 'on_open_position':
                raise RuntimeError('scripted failure')

        def on_increased_position(self, order):
            self._log('on_increased_position', getattr(order, '_vf_oid', -1))
            self._log_liq()
            self._apply_exits(self.spec.get('on_increased'), self.position.entry_price, 'on_increased_position')
            self._react(self.spec.get('on_increased'), 'on_increased_position')

        def on_reduced_position(self, order):
            self._log('on_reduced_position', getattr(order, '_vf_oid', -1))
            self._log_liq()
            self._apply_exits(self.spec.get('on_reduced'), self.position.entry_price, 'on_reduced_position')
            self._react(self.spec.get('on_reduced'), 'on_reduced_position')

        def on_close_position(self, order):
            self._log('on_close_position', getattr(order, '_vf_oid', -1))
            if self.spec.get('read_metrics'):
                _ = self.metrics          # reading the running metrics must not change anything

        def on_route_open_position(self, strategy):
            # reaction to ANOTHER route's fill: (re)declare own exits
            d = self.spec.get('on_route_open')
            if d and self.position.is_open:
                self._log('on_route_open_position')
                self._apply_exits(d, self.position.entry_price, 'on_route_open_position')

        def on_cancel(self):
            self._log('on_cancel')

        def update_position(self):
            if self.spec.get('tp_when_no_entry_orders') and not getattr(self, '_tp_placed', False) and len(self.entry_orders) == 0:
                # a strategy that waits until the framework reports no entry order any more before it places its exit
                self._tp_placed = True
                d = self.spec['tp_when_no_entry_orders']
                self._apply_exits({'tp': 'all', 'tp_d': d}, self.position.entry_price, 'update_position')
            for u in self.spec.get('update', []):
                if u['at'] != self.index:
                    continue
                self._log('update_position', u)
                if u.get('liquidate'):
                    self.liquidate()
                    if self.spec.get('log_declare'):
                        which = 'tp' if self.position.pnl > 0 else 'sl'
                        self._declared(which, [(abs(self.position.qty), self.price)], 'liquidate')
                elif u.get('flip'):
                    q = abs(self.position.qty) * u['flip']
                    if self.is_long:
                        self.broker.sell_at_market(q)
                    else:
                        self.broker.buy_at_market(q)
                else:
                    self._apply_exits(u, self.position.entry_price, 'update_position')
            if isinstance(self.spec.get('raise'), dict) and self.spec['raise'].get('at') == self.index:
                raise RuntimeError('scripted failure')

        def before_terminate(self):
            STATE['terminating'] = True
            self._log('before_terminate')

        def terminate(self):
            self._log('terminate')

    return ScriptedStrategy


_CLASSES = {}


def strategy_class(i=0):
    if 'base' not in _CLASSES:
        _CLASSES['base'] = _strategy_base()
    if i not in _CLASSES:
        _CLASSES[i] = type('Scripted%d' % i, (_CLASSES['base'],), {})
    return _CLASSES[i]


# ------------------------------------------------------------------ running a session

def run_session(case):
    """case: {'cfg': {type, fee, balance, leverage, mode}, 'routes': [{'symbol', 'timeframe', 'spec'}], 'data_routes': [[symbol, tf]],
              'candles': {symbol: rows}, 'fast': bool, 'observe': 0|1|2, 'warmup': {symbol: rows} | None}
    Returns {'trace': [...], 'end': {...} | None, 'error': None | (exc class name, message)}"""
    import jesse.helpers as jh
    from jesse import research
    install()
    if not case.get('no_hygiene'):
        jh.CACHED_CONFIG.clear()     # process-wide memo of config look-ups: the subject of C11, reset for every other check
    del TRACE[:]
    del ORDERS[:]
    FROZEN.clear()
    SPECS.clear()
    STATE['in_exec'] = 0
    STATE['terminating'] = False
    STATE['end'] = None
    STATE['observe'] = case.get('observe', 1)
    c = case['cfg']
    cfg = {'starting_balance': c.get('balance', 10000), 'fee': c.get('fee', 0), 'type': c.get('type', 'futures'),
           'futures_leverage': c.get('leverage', 2), 'futures_leverage_mode': c.get('mode', 'cross'), 'exchange': c.get('exchange', EX),
           'warm_up_candles': c.get('warm_up_candles', 0)}
    routes = []
    for i, r in enumerate(case['routes']):
        SPECS[r['symbol']] = r['spec']
        routes.append({'exchange': cfg['exchange'], 'strategy': strategy_class(i), 'symbol': r['symbol'], 'timeframe': r['timeframe']})
    X = cfg['exchange']
    droutes = [{'exchange': X, 'symbol': s, 'timeframe': tf} for s, tf in case.get('data_routes', [])]
    candles = {'%s-%s' % (X, s): {'exchange': X, 'symbol': s, 'candles': np.array(rows, dtype=float)} for s, rows in case['candles'].items()}
    warm = None
    if case.get('warmup'):
        warm = {'%s-%s' % (X, s): {'exchange': X, 'symbol': s, 'candles': np.array(rows, dtype=float)} for s, rows in case['warmup'].items()}
    if case.get('keep_args') is not None:
        import copy
        hpa = case.get('hyperparameters')
        case['keep_args'].update({'before': copy.deepcopy((cfg, [dict(r, strategy=None) for r in routes], droutes, candles, warm, hpa)),
                                  'live': (cfg, routes, droutes, candles, warm, hpa)})
    err = None
    res = None
    try:
        res = research.backtest(cfg, routes, droutes, candles, warmup_candles=warm, fast_mode=bool(case.get('fast')),
                                hyperparameters=case.get('hyperparameters'))
    except Exception as e:
        import traceback
        err = (type(e).__name__, str(e)[:300], traceback.format_exc()[-1200:])
    return {'trace': list(TRACE), 'end': STATE['end'], 'error': err, 'result': res}


# ------------------------------------------------------------------ trace helpers

def minute_of(ts, t0=TS0):
    return int((ts - t0) // 60000)


def index_trace(trace):
    """Annotate order events with the 1m minute that was current (last 1m candle event of the symbol)."""
    cur = {}
    orders = {}
    seq = []
    for idx, ev in enumerate(trace):
        k = ev[0]
        if k == 'candle' and ev[2] == '1m':
            cur[ev[1]] = minute_of(ev[3])
        elif k == 'submit':
            o = {'oid': ev[1], 'symbol': ev[2], 'type': ev[3], 'side': ev[4], 'qty': ev[5], 'price': ev[6], 'reduce_only': ev[7],
                 'submit_idx': idx, 'submit_now': ev[8], 'cur_price': ev[9], 'reaction': ev[10], 'submit_minute': cur.get(ev[2], -1),
                 'final': None, 'final_idx': None, 'final_minute': None}
            orders[ev[1]] = o
        elif k in ('exec', 'cancel') and not ev[3] and ev[1] in orders:
            o = orders[ev[1]]
            o['final'] = k
            o['final_idx'] = idx
            o['final_minute'] = cur.get(o['symbol'], -1)
            o['final_now'] = ev[2]
    return orders
