#!/bin/bash
# replays every recorded finding's witness: a fixed finding must now hold, a known one must print KNOWN-FINDING
cd "$(dirname "$(readlink -f "$0")")/.." || exit 2
bad=0
for f in findings/*.json; do
  id=$(basename $f .json); prop=${id%%-*}
  status=$(/venv/bin/python -c "import json;print([x['status'] for x in json.load(open('known_findings.json'))['findings'] if x['id']=='$id'][0])")
  out=$(./check $prop --replay $f 2>&1); rc=$?
  if [ "$status" = fixed ]; then ok=$([ $rc -eq 0 ] && echo ok || echo BAD); else ok=$(echo "$out" | grep -q '^KNOWN-FINDING' && [ $rc -eq 0 ] && echo ok || echo BAD); fi
  [ "$ok" = BAD ] && bad=1
  echo "$id $status rc=$rc $ok | $(echo "$out" | tail -1 | cut -c1-140)"
done
exit $bad
