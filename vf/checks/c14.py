"""C14 - sequential and single-value indicator results agree (Engine C).

For every public indicator x parameter variants (default, small windows, another window) x source types x input lengths
below, at and above the 240-candle warm-up window x the stem menu:
  (a) every field of the sequential result has exactly one entry per input candle,
  (b) its last entry equals the non-sequential result on the same input (inputs up to the warm-up window, where the
      non-sequential path does not slice; beyond it (c) is the applicable clause - a recursive indicator cannot satisfy both),
  (c) the non-sequential result on a long input equals the sequential result on the trailing 240 candles.
The extrema detector (minmax) is compared at entry -(order+1), as documented.
"""
import numpy as np

from .. import core, indreg
from ..core import Violation

ID = 'C14'
WARM = 240


def _val_at(name, kw, arr, from_end=1):
    return arr[-from_end]


def _job(args):
    names, quick, lmin = args[:3]
    boundary = len(args) > 3 and args[3]      # separate jobs: input exactly as long as (and one longer than) the largest window
    fs = dict(indreg.functions())
    st = indreg.stems(480)
    st2 = indreg.stems(480, base=50.0)
    out = {'n': 0, 'viols': [], 'covered': [], 'raised': 0}
    seen = set()

    def bad(clause, name, sig, case, msg):
        k = (clause, name, repr(sorted(sig.items())))
        if k in seen:
            return
        seen.add(k)
        out['viols'].append(Violation(clause, dict(sig, indicator=name), case, msg).to_json())

    lengths = [60, 120, 239, 240, 241, 300, 480] if not quick else [100, 239, 240, 241, 300]
    lengths = [L for L in lengths if L >= lmin]
    for name in names:
        f = fs[name]
        seqable = indreg.has(f, 'sequential')
        var = indreg.variants(name, f)
        plans = [(vn, dict(kw), 'close') for vn, kw in var.items()]
        if boundary:
            plans = [p for p in plans if p[0] == 'large']
            W = max([v for p in plans for v in p[1].values() if isinstance(v, int)] + [0])
            lengths = [W, W + 1] if W >= 40 else []
        elif indreg.has(f, 'source_type'):
            srcs = indreg.SOURCES[1:] if not quick else ['high', 'volume', 'hlc3']
            plans += [('default', {'source_type': s}, s) for s in srcs]
        any_ok = False
        for vname, kw, src in plans:
            for sname in (('walk1', 'spike', 'trend', 'saw', 'notrade') if not quick else ('walk1', 'spike', 'notrade')):
                for L in lengths:
                    c, c2 = st[sname][:L], st2[sname][:L]
                    case = {'indicator': name, 'variant': vname, 'params': kw, 'stem': sname, 'length': L}
                    out['n'] += 1
                    try:
                        single = indreg.call(name, f, c, False, kw, c2)
                        seq = indreg.call(name, f, c, True, kw, c2) if seqable else None
                    except Exception as e:
                        out['raised'] += 1
                        continue
                    any_ok = True
                    if not seqable:
                        continue
                    sf, qf = indreg.fields(single), indreg.fields(seq)
                    if len(sf) != len(qf):
                        bad('field-count', name, {}, case, '%s: %d fields single, %d sequential' % (name, len(sf), len(qf)))
                        continue
                    order = int(kw.get('order', 3)) if name == 'minmax' else 0
                    for (fn, sv), (_, qv) in zip(sf, qf):
                        try:
                            qa = np.asarray(qv, dtype=float)
                        except (ValueError, TypeError):
                            qa = None
                        if qa is None:
                            continue
                        if qa.ndim == 0:
                            # sequential=True must give a series (one entry per candle), also when there are too few candles for a value
                            bad('sequential-length', name, {'field': fn, 'scalar': True}, case, '%s(%s, sequential=True) on %d candles returned the scalar %r for field %s' % (name, kw, L, float(qa), fn))
                            continue
                        if qa.shape[0] != L:
                            bad('sequential-length', name, {'field': fn}, case, '%s(%s) field %s has %d entries for %d candles' % (name, kw, fn, qa.shape[0], L))
                            continue
                        try:
                            s1 = float(sv) if sv is not None else float('nan')
                        except (ValueError, TypeError):
                            continue
                        ref = qa[-(order + 1)] if (name == 'minmax' and fn in ('is_min', 'is_max')) else qa[-1]
                        if L <= WARM and not indreg.same(s1, ref, rel=1e-9, abs_=1e-9):
                            bad('last-differs-from-single', name, {'field': fn}, case, '%s(%s) on %d candles: sequential[-1] = %r, non-sequential = %r (field %s)' % (name, kw, L, float(ref), s1, fn))
                    if L > WARM:
                        try:
                            tail = indreg.call(name, f, c[-WARM:], True, kw, c2[-WARM:])
                        except Exception:
                            continue
                        for (fn, sv), (_, tv) in zip(sf, indreg.fields(tail)):
                            try:
                                ta = np.asarray(tv, dtype=float)
                                s1 = float(sv) if sv is not None else float('nan')
                            except (ValueError, TypeError):
                                continue
                            if ta.ndim == 0 or not len(ta):
                                continue
                            ref = ta[-(order + 1)] if (name == 'minmax' and fn in ('is_min', 'is_max')) else ta[-1]
                            if not indreg.same(s1, ref, rel=1e-9, abs_=1e-9):
                                bad('single-ignores-warmup-window', name, {'field': fn}, case,
                                    '%s(%s) on %d candles: non-sequential = %r, sequential on the trailing %d candles ends with %r (field %s)' % (name, kw, L, s1, WARM, float(ref), fn))
        if any_ok:
            out['covered'].append(name)
    return out


def _warm_job(args):
    """A process that first worked with another warm-up window (an earlier session configured 100 candles) and then with the default
    one: the non-sequential result must follow the window of the CURRENT configuration (clause (c) at the default 240)."""
    names, earlier = args
    import jesse.helpers as jh
    from jesse.config import config
    fs = dict(indreg.functions())
    st, st2 = indreg.stems(480), indreg.stems(480, base=50.0)
    c, c2 = st['walk1'][:480], st2['walk1'][:480]
    out = {'n': 0, 'viols': [], 'covered': [], 'raised': 0}
    old = config['env']['data'].get('warmup_candles_num', WARM)
    for W, compare in ((earlier, False), (WARM, True)):
        # what jesse.config.set_config does at the start of a session
        jh.CACHED_CONFIG.clear()
        config['env']['data']['warmup_candles_num'] = W
        for name in names:
            f = fs[name]
            if not indreg.has(f, 'sequential'):
                continue
            try:
                single = indreg.call(name, f, c, False, {}, c2)
                if not compare:
                    continue
                tail = indreg.call(name, f, c[-W:], True, {}, c2[-W:])
            except Exception:
                out['raised'] += 1
                continue
            out['n'] += 1
            for (fn, sv), (_, tv) in zip(indreg.fields(single), indreg.fields(tail)):
                try:
                    ta = np.asarray(tv, dtype=float)
                    s1 = float(sv) if sv is not None else float('nan')
                except (ValueError, TypeError):
                    continue
                if ta.ndim == 0 or not len(ta):
                    continue
                ref = ta[-4] if (name == 'minmax' and fn in ('is_min', 'is_max')) else ta[-1]
                if not indreg.same(s1, ref, rel=1e-9, abs_=1e-9):
                    out['viols'].append(Violation('single-ignores-warmup-window', {'indicator': name, 'field': fn, 'after_other_window': True},
                                                  {'indicator': name, 'earlier_window': earlier, 'window': W, 'length': 480, 'warm': True},
                                                  '%s on 480 candles after a session configured with a %d-candle window: non-sequential = %r, sequential on the trailing %d candles ends with %r (field %s)' % (name, earlier, s1, W, float(ref), fn)).to_json())
                    break
    jh.CACHED_CONFIG.clear()
    config['env']['data']['warmup_candles_num'] = old
    return out


def run(ctx):
    cov = ctx.coverage
    names = [n for n, f in indreg.functions()]
    jobs = [([n], ctx.quick, 0) for n in names]
    sigs = set()
    covered = set()
    crashed = []
    first = core.pmap_isolated(_job, jobs)
    retry = [([j[0][0]], j[1], 200) for j, (st, r) in zip(jobs, first) if st != 'ok']
    second = dict(zip([j[0][0] for j in retry], core.pmap_isolated(_job, retry)))
    bjobs = [([n], ctx.quick, 0, True) for n in names]
    for j, (st, r) in zip(bjobs, core.pmap_isolated(_job, bjobs)):
        if st != 'ok':
            crashed.append('%s: %s on an input exactly as long as its window' % (j[0][0], r))
            continue
        cov['transitions'] += r['n']
        ctx.count('raised', r['raised'])
        ctx.count('boundary-length-evaluations', r['n'])
        for v in r['viols']:
            v = Violation.from_json(v)
            if v.sigkey() not in sigs:
                sigs.add(v.sigkey())
                ctx.add(v)
    wjobs = [(names[i:i + 12], w) for i in range(0, len(names), 12) for w in (100, 300)]
    for j, (st, r) in zip(wjobs, core.pmap_isolated(_warm_job, wjobs)):
        if st != 'ok':
            crashed.append('%s..: %s in the window-change job' % (j[0][0], r))
            continue
        cov['transitions'] += r['n']
        ctx.count('raised', r['raised'])
        ctx.count('evaluations-after-another-warm-up-window', r['n'])
        for v in r['viols']:
            v = Violation.from_json(v)
            if v.sigkey() not in sigs:
                sigs.add(v.sigkey())
                ctx.add(v)
    for j, (st, r) in zip(jobs, first):
        if st != 'ok':
            crashed.append('%s: %s on short inputs; retried with lengths >= 200' % (j[0][0], r))
            st, r = second[j[0][0]]
            if st != 'ok':
                crashed.append('%s: %s also with lengths >= 200' % (j[0][0], r))
                continue
        cov['transitions'] += r['n']
        ctx.count('raised', r['raised'])
        covered |= set(r['covered'])
        for v in r['viols']:
            v = Violation.from_json(v)
            if v.sigkey() not in sigs:
                sigs.add(v.sigkey())
                ctx.add(v)
    cov['states'] = cov['transitions']
    cov['traces_validated_against_impl'] = cov['transitions']
    cov['evaluations'] = cov['transitions']
    cov['distinct_nontrivial'] = len(covered)
    cov['rule'] = 'every public indicator x parameter variants x source types x lengths x stems; distinct_nontrivial = indicators evaluated successfully at least once'
    cov['bounds'] = {'indicators': len(names), 'lengths': [60, 120, 239, 240, 241, 300, 480] if not ctx.quick else [100, 239, 240, 241, 300], 'sources': indreg.SOURCES}
    cov['uncovered'] = sorted(set(names) - covered)
    cov['native_crashes'] = crashed
    ctx.sample({'indicator': 'sma', 'variant': 'default', 'stem': 'walk1', 'length': 241})
    ctx.sample({'indicator': 'macd', 'variant': 'small', 'stem': 'spike', 'length': 300})
    ctx.assumptions += ['seq[-1] == single and single(long) == seq(long[-240:])[-1] are compared NaN-aware to 1e-9 relative (cumulative-sum kernels differ in the last bits between input lengths)',
                        'indicators without a sequential parameter (6) are only exercised, not compared']


def replay(case, ctx):
    if case.get('warm'):
        return [Violation.from_json(v) for v in _warm_job(([case['indicator']], case['earlier_window']))['viols']]
    r = _job(([case['indicator']], False, 0))
    rb = _job(([case['indicator']], False, 0, True))
    return [Violation.from_json(v) for v in r['viols'] + rb['viols']]
