import json,sys
from vf.checks import c04
from vf import bfs
d=json.load(open(sys.argv[1]))
s=c04.SpotSys(d['case']['cfg'])
for op in d['case']['history']:
    op=tuple(op); print(op, s.apply(op)); print('  assets',s.ex.assets,'pos',repr(s.pos.qty), 'ref',float(s.Q),float(s.B), [o.status for o in s.objs])
