"""C20 - candle series handed to the store are gapless and strictly ordered.

Engine C: _fill_absent_candles on every non-empty pattern of present minutes of every interval of <= N
minutes; research.backtest spacing validation on every leading gap of a small menu.
Engine B: BFS over add_candle / add_multiple_1m_candles histories on the real CandlesState (1m storage and
one higher timeframe, tiny buckets so bucket boundaries are crossed), reference = dict keyed by timestamp.
"""
import itertools

import numpy as np

from .. import core, bfs
from ..core import Violation

ID = 'C20'
TS = 1609459200000
EX, SYM = 'Sandbox', 'BTC-USDT'


# ------------------------------------------------------------------ Engine C: gap filling

def _fill_chunk(args):
    n, masks = args
    from jesse.modes.import_candles_mode import _fill_absent_candles
    out = {'n': 0, 'viols': []}
    seen = set()

    def bad(clause, sig, case, msg):
        k = (clause, repr(sorted(sig.items())))
        if k in seen:
            return
        seen.add(k)
        out['viols'].append(Violation(clause, sig, case, msg).to_json())

    def candle(i):
        o = 100.0 + 3 * i
        return {'id': 'id%d' % i, 'exchange': EX, 'symbol': SYM, 'timeframe': '1m', 'timestamp': TS + i * 60000,
                'open': o, 'close': o + 1.5, 'high': o + 2.25, 'low': o - 0.75, 'volume': 10.0 + i}

    variants = []
    for mask in masks:
        present = [i for i in range(n) if mask >> i & 1]
        missing = n - len(present)
        # the exchange page handed to the filler may start late and run past the end of the requested interval
        for head in (0,):      # candles before the start are outside the property's quantifier (which open counts as 'first known' is then ambiguous)
            for tail in sorted({0, 1, 2, missing, missing + 1}):
                if head and tail not in (0, missing):
                    continue
                variants.append((present, head, tail, 'sorted'))
        # the order in which the exchange page lists its rows: newest first, and one late row appended at the end
        if len(present) >= 2:
            variants.append((present, 0, 0, 'newest-first'))
            variants.append((present, 0, 1, 'first-row-last'))
    for present, head, tail, order in variants:
        ids = ([-1] if head else []) + present + [n + k for k in range(tail)]
        if order == 'newest-first':
            ids = ids[::-1]
        elif order == 'first-row-last':
            ids = ids[1:] + ids[:1]
        given = [candle(i) for i in ids]
        snapshot = sorted([dict(c) for c in given if TS <= c['timestamp'] <= TS + (n - 1) * 60000], key=lambda c: c['timestamp'])
        case = {'n': n, 'present': present, 'before_start': head, 'after_end': tail, 'order': order}
        out['n'] += 1
        try:
            res = _fill_absent_candles(list(given), TS, TS + (n - 1) * 60000)
        except Exception as e:
            bad('fill-raises', {'exc': type(e).__name__}, case, '_fill_absent_candles raised %r' % (e,))
            continue
        if sorted([c for c in given if TS <= c['timestamp'] <= TS + (n - 1) * 60000], key=lambda c: c['timestamp']) != snapshot:
            bad('fill-mutates-input', {}, case, 'provided candles were modified')
        ts = [c['timestamp'] for c in res]
        if ts != [TS + i * 60000 for i in range(n)]:
            kind = 'count' if len(ts) != n else 'order'
            bad('fill-timestamps', {'kind': kind, 'first_missing': present[0] != 0, 'last_missing': present[-1] != n - 1, 'extra_outside': bool(head or tail)}, case,
                'result timestamps (minutes) %s, expected 0..%d' % ([(t - TS) // 60000 for t in ts], n - 1))
            continue
        last_close = None
        first_open = snapshot[0]['open']
        byts = {c['timestamp']: c for c in snapshot}
        for i, c in enumerate(res):
            t = TS + i * 60000
            if t in byts:
                if {k: c.get(k) for k in byts[t]} != byts[t]:
                    bad('fill-changes-provided', {'page_order': order}, case, 'provided candle of minute %d came back as %r' % (i, c))
                last_close = byts[t]['close']
            else:
                want = last_close if last_close is not None else first_open
                pos = 'leading' if last_close is None else 'inner'
                vals = (c['open'], c['close'], c['high'], c['low'])
                if order != 'sorted' and last_close is None and vals == (given[0]['open'],) * 4 and c['volume'] == 0:
                    continue        # unsorted page: which open is "the first known" is ambiguous (first listed is accepted)
                if vals != (want,) * 4 or c['volume'] != 0:
                    bad('fill-value', {'position': pos, 'page_order': order}, case, 'filled minute %d is %r, expected flat at %r with zero volume' % (i, c, want))
                if c.get('exchange') != EX or c.get('symbol') != SYM:
                    bad('fill-value', {'position': 'identity'}, case, 'filled minute %d has exchange/symbol %r/%r' % (i, c.get('exchange'), c.get('symbol')))
    return out


def _spacing(gap_s):
    import jesse.helpers as jh
    from jesse import research
    from jesse.strategies import Strategy

    class S(Strategy):
        def should_long(self):
            return False

        def go_long(self):
            pass

    jh.CACHED_CONFIG.clear()
    rows = [[TS, 100, 100, 100, 100, 1.0], [TS + gap_s * 1000, 100, 100, 100, 100, 1.0]]
    for k in range(2, 6):
        rows.append([rows[1][0] + (k - 1) * 60000, 100, 100, 100, 100, 1.0])
    cfg = {'starting_balance': 1000, 'fee': 0, 'type': 'futures', 'futures_leverage': 1, 'futures_leverage_mode': 'cross', 'exchange': EX, 'warm_up_candles': 0}
    try:
        research.backtest(cfg, [{'exchange': EX, 'strategy': S, 'symbol': SYM, 'timeframe': '1m'}], [],
                          {EX + '-' + SYM: {'exchange': EX, 'symbol': SYM, 'candles': np.array(rows, dtype=float)}})
        return gap_s, 'accepted'
    except ValueError:
        return gap_s, 'ValueError'
    except Exception as e:
        return gap_s, type(e).__name__


# ------------------------------------------------------------------ Engine B: the store

class StoreSys:
    def __init__(self, cfg):
        import jesse.helpers as jh
        from jesse.config import config
        from jesse.store.state_candles import CandlesState
        from jesse.libs import DynamicNumpyArray
        jh.CACHED_CONFIG.clear()
        config['app']['trading_mode'] = 'backtest'
        self.cfg = cfg
        self.tf = cfg['tf']
        self.step = {'1m': 1, '5m': 5}
        self.cs = CandlesState()
        self.cs.storage[jh.key(EX, SYM, '1m')] = DynamicNumpyArray((cfg['bucket'], 6))
        self.cs.storage[jh.key(EX, SYM, self.tf)] = DynamicNumpyArray((max(1, cfg['bucket'] // 2), 6))
        self.model = {'1m': {}, self.tf: {}}      # ts -> row values
        self.ctr = 0
        self.problems = []
        self.end_reason = ''
        if cfg.get('prefill'):
            for i in range(cfg['prefill']):
                r = self._add('1m', TS + i * 60000)
                self.model['1m'][TS + i * 60000] = list(map(float, r))
                if i % 5 == 0:
                    r = self._add(self.tf, TS + i * 60000)
                    self.model[self.tf][TS + i * 60000] = list(map(float, r))

    def row(self, ts):
        self.ctr += 1
        c = float(self.ctr)
        return np.array([ts, 100 + c, 100.5 + c, 101 + c, 99 + c, c])

    def _add(self, tf, ts):
        r = self.row(ts)
        self.cs.add_candle(r.copy(), EX, SYM, tf, with_execution=False, with_generation=False)
        return r

    def _last(self, tf):
        m = self.model[tf]
        return max(m) if m else None

    def enabled(self):
        ops = []
        for tf in ('1m', self.tf):
            st = self.step[tf] * 60000
            last = self._last(tf)
            if last is None:
                ops.append(('add', tf, 'first'))
                continue
            ops += [('add', tf, 'next'), ('add', tf, 'same'), ('add', tf, 'prev'), ('add', tf, 'prev3'), ('add', tf, 'second'), ('add', tf, 'oldest'), ('add', tf, 'unknown-older')]
            if tf == '1m' and self.cfg.get('gaps'):
                ops.append(('add', tf, 'gap'))
        m = self.model['1m']
        contiguous = (not m) or (max(m) - min(m)) // 60000 + 1 == len(m)
        if contiguous and self.cfg.get('batch'):
            for k in (1, 3):
                ops.append(('batch', 'next', k))
                if len(m) >= k:
                    ops.append(('batch', 'same', k))
            if len(m) >= 2:
                ops.append(('batch', 'overlap', 4))     # 2 stored minutes + 2 new ones
                ops.append(('batch', 'overlap', 3))     # 2 stored + 1 new
        return ops

    def apply(self, op):
        try:
            if op[0] == 'add':
                return self._apply_add(op[1], op[2])
            return self._apply_batch(op[1], op[2])
        except Exception as e:
            self.problems.append(('store-raises', {'op': op[0], 'kind': op[-1] if op[0] == 'add' else op[1], 'exc': type(e).__name__},
                                  '%s raised %r' % (op, e)))
            return 'ok'

    def _apply_add(self, tf, kind):
        m = self.model[tf]
        st = self.step[tf] * 60000
        last = self._last(tf)
        if kind == 'first':
            ts = TS
        elif kind == 'next':
            ts = last + st
        elif kind == 'gap':
            ts = last + 2 * st
        elif kind == 'same':
            ts = last
        elif kind in ('prev', 'prev3'):
            back = 1 if kind == 'prev' else 3
            keys = sorted(m)
            if len(keys) <= back:
                return 'end'
            ts = keys[-1 - back]
        elif kind in ('second', 'oldest'):
            keys = sorted(m)
            if len(keys) < 3:
                return 'end'
            ts = keys[1 if kind == 'second' else 0]
        else:
            ts = min(m) - st if (max(m) - min(m)) // st + 1 == len(m) else next(t for t in range(min(m), max(m), st) if t not in m)
        if kind == 'unknown-older':
            # not defined by the property: only the ordering invariant is demanded; any exception is tolerated
            try:
                self._add(tf, ts)
            except Exception:
                self.end_reason = 'unknown-older-raised'
            got = self.stored(tf)
            for t, v in m.items():
                if t in got and got[t] != v:
                    self.problems.append(('older-unknown-corrupts', {}, 'adding an unknown older candle changed the stored candle %d' % ((t - TS) // 60000)))
            self.model[tf] = dict(got) if self._ordered(tf) else m
            return 'ok'
        r = self._add(tf, ts)
        m[ts] = list(map(float, r))
        return 'ok'

    def _apply_batch(self, kind, k):
        m = self.model['1m']
        last = self._last('1m')
        if last is None:
            start = TS
        elif kind == 'next':
            start = last + 60000
        elif kind == 'same':
            start = last - (k - 1) * 60000
        else:
            start = last - 60000
        rows = np.array([self.row(start + i * 60000) for i in range(k)])
        self.cs.add_multiple_1m_candles(rows.copy(), EX, SYM)
        for r in rows:
            m[int(r[0])] = list(map(float, r))
        return 'ok'

    def stored(self, tf):
        arr = self.cs.get_storage(EX, SYM, tf)
        return {int(r[0]): list(map(float, r)) for r in arr[:]}

    def _ordered(self, tf):
        arr = self.cs.get_storage(EX, SYM, tf)
        ts = [r[0] for r in arr[:]]
        return all(a < b for a, b in zip(ts, ts[1:]))

    def check(self):
        for tf in ('1m', self.tf):
            arr = self.cs.get_storage(EX, SYM, tf)
            ts = [int(r[0]) for r in arr[:]]
            if not all(a < b for a, b in zip(ts, ts[1:])):
                self.problems.append(('not-increasing', {'tf': tf}, '%s timestamps (minutes) %s' % (tf, [(t - TS) // 60000 for t in ts])))
                continue
            want = self.model[tf]
            got = self.stored(tf)
            if sorted(got) != sorted(want):
                missing = sorted(set(want) - set(got))
                extra = sorted(set(got) - set(want))
                self.problems.append(('stored-set', {'tf': tf, 'missing': bool(missing), 'extra': bool(extra)},
                                      '%s stores minutes %s, expected %s' % (tf, [(t - TS) // 60000 for t in sorted(got)], [(t - TS) // 60000 for t in sorted(want)])))
            else:
                for t in want:
                    if got[t] != want[t]:
                        self.problems.append(('stored-value', {'tf': tf, 'from_end': min(len(ts) - 1 - ts.index(t), 3)},
                                              '%s candle of minute %d is %s, expected the last one added %s' % (tf, (t - TS) // 60000, got[t], want[t])))
                        break
            if tf == '1m' and len(ts):
                cur = self.cs.get_candles(EX, SYM, '1m')
                if len(cur) != len(ts):
                    self.problems.append(('get-candles', {}, 'get_candles returns %d rows, store has %d' % (len(cur), len(ts))))

    def canon(self):
        k = []
        for tf in ('1m', self.tf):
            arr = self.cs.get_storage(EX, SYM, tf)
            k.append((tuple(int(r[0] - TS) // 60000 for r in arr[:]), arr.array.shape[0]))
        return tuple(k)


bfs.register('candle-store', StoreSys)


def _store_session(args):
    """whole backtests (warm-up injection, trading + data routes on the same pair, both simulators): every stored series must
    have strictly increasing timestamps, the 1m series without gaps"""
    from . import c07
    from .. import session as S
    tf, dtfs, two, length, fill_at, fast, warm, emb = args
    case = c07.build(tf, dtfs, two, length, fill_at, fast, warm, emb)
    r = S.run_session(case)
    ident = {'store_session': True, 'tf': tf, 'data_tfs': list(dtfs), 'two_symbols': two, 'length': length, 'fill_at': fill_at, 'fast': fast, 'warmup_windows': warm, 'embedding': list(emb)}
    if r['error']:
        return [Violation('session-raises', {'exc': r['error'][0]}, ident, '%s: %s' % r['error'][:2]).to_json()]
    out = []
    for key, rows in (r['end'].get('stored_candles') or {}).items():
        if isinstance(rows, str):
            continue
        ts = [int(x[0]) for x in rows]
        if any(b <= a for a, b in zip(ts, ts[1:])):
            i = next(i for i, (a, b) in enumerate(zip(ts, ts[1:])) if b <= a)
            out.append(Violation('session-store-not-increasing', {'tf_is_1m': key.endswith('|1m'), 'warmup': bool(warm)}, ident,
                                 '%s: %d rows, timestamp goes from minute %d back to %d at row %d' % (key, len(ts), (ts[i] - TS) // 60000, (ts[i + 1] - TS) // 60000, i + 1)).to_json())
        elif key.endswith('|1m') and any(b - a != 60000 for a, b in zip(ts, ts[1:])):
            out.append(Violation('session-store-gap', {'warmup': bool(warm)}, ident, '%s: 1m series has a gap' % key).to_json())
    return out


def run(ctx):
    cov = ctx.coverage
    nmax = 8 if ctx.quick else 11
    jobs = []
    for n in range(1, nmax + 1):
        masks = list(range(1, 1 << n))
        for ch in core.chunks(masks, 256):
            jobs.append((n, ch))
    nfill = 0
    for r in core.pmap(_fill_chunk, jobs, chunksize=1):
        nfill += r['n']
        ctx.extend(Violation.from_json(v) for v in r['viols'])
    ctx.count('fill-patterns', nfill)
    cov['transitions'] += nfill
    cov['traces_validated_against_impl'] += nfill
    cov['states'] += nfill
    for gap, verdict in core.pmap(_spacing, [-60, 0, 30, 59, 60, 61, 120, 3600], chunksize=1):
        cov['transitions'] += 1
        cov['traces_validated_against_impl'] += 1
        ctx.count('spacing:' + verdict)
        want = 'accepted' if gap == 60 else 'ValueError'
        if verdict != want:
            ctx.add(Violation('spacing-validation', {'gap_s': gap, 'impl': verdict}, {'spacing_gap_s': gap},
                              'research.backtest with first candles %d s apart: %s (expected %s)' % (gap, verdict, want)))
    sjobs = []
    for tf, dtfs in (('5m', ('15m',)), ('1m', ('3m',)), ('3m', ('15m',)), ('15m', ('5m',)), ('5m', ('1m',)), ('3m', ())):
        for fast in (False, True):
            for warm in (0, 1, 2):
                for two in (False, True):
                    sjobs.append((tf, dtfs, two, 2 * 15 + 1, 17, fast, warm, ctx.embedding))
    for vs in core.pmap(_store_session, sjobs, chunksize=2):
        ctx.extend(Violation.from_json(v) for v in vs)
    ctx.count('store-sessions', len(sjobs))
    cov['transitions'] += len(sjobs)
    cov['traces_validated_against_impl'] += len(sjobs)
    depth = 6 if ctx.quick else 8
    cfgs = [({'tf': '5m', 'bucket': 3, 'batch': True, 'gaps': False}, depth),
            ({'tf': '5m', 'bucket': 4, 'batch': False, 'gaps': True}, depth),
            ({'tf': '5m', 'bucket': 30, 'batch': True, 'gaps': False, 'prefill': 25}, 3 if ctx.quick else 4)]
    for cfg, d in cfgs:
        bfs.search(ctx, 'candle-store', cfg, d)
    cov['evaluations'] = cov['transitions']
    cov['distinct_nontrivial'] = cov['states']
    cov['rule'] = ('fill: every non-empty presence pattern of every interval length <= %d; store: BFS over add/batch histories, distinct = canonical states '
                   '(stored timestamps per timeframe + capacity); every case is non-trivial (complete comparison with the reference)' % nmax)
    cov['bounds'].update({'fill_interval_lengths': '1..%d' % nmax, 'store_configs': [{'cfg': c, 'depth': d} for c, d in cfgs]})
    ctx.sample({'n': 4, 'present': [1, 3]})
    ctx.assumptions += ['candle values are fresh counters and never influence control flow: store states are merged on timestamps and capacity',
                        'for an unknown older timestamp only the ordering invariant and the integrity of the other stored candles are demanded',
                        'batch operations are driven only while the stored 1m series is contiguous (add_multiple_1m_candles is specified for 1m series)']


def replay(case, ctx):
    if case.get('store_session'):
        emb = tuple(case.get('embedding') or ctx.embedding)
        return [Violation.from_json(v) for v in _store_session((case['tf'], tuple(case['data_tfs']), case['two_symbols'], case['length'], case['fill_at'], case['fast'], case['warmup_windows'], emb))]
    if 'present' in case:
        n = case['n']
        mask = sum(1 << i for i in case['present'])
        return [Violation.from_json(v) for v in _fill_chunk((n, [mask]))['viols'] if v['case'].get('after_end', 0) == case.get('after_end', 0) and v['case'].get('before_start', 0) == case.get('before_start', 0) and v['case'].get('order', 'sorted') == case.get('order', 'sorted')]
    if 'spacing_gap_s' in case:
        gap, verdict = _spacing(case['spacing_gap_s'])
        want = 'accepted' if gap == 60 else 'ValueError'
        return [] if verdict == want else [Violation('spacing-validation', {'gap_s': gap, 'impl': verdict}, case, 'verdict %s' % verdict)]
    return bfs.replay('candle-store', case['cfg'], [tuple(o) for o in case['history']])
