"""
Audit C20 - "Candle series handed to the store are gapless and strictly ordered".

Clause under test:
    "The candle store keeps strictly increasing timestamps for every timeframe: a candle with a
     new timestamp is appended, one with the timestamp of a stored candle replaces it"
    quantified over "every sequence of new / repeated / older candles added to the store".

Counterexample: CandlesState.add_multiple_1m_candles() (the batch entry used by the fast simulator,
research.backtest(..., fast_mode=True)) appends a batch wholesale. A repeated (or older) candle inside
the batch is appended instead of replacing the stored one, so the 1m store ends up with a duplicated /
decreasing timestamp. The very same input through the normal simulator (add_candle) keeps the store
strictly increasing. The isolated backtest accepts the input because only the two leading candles are
checked for the one-minute spacing.

Run:  cd /tmp/wta_C20 && /venv/bin/python audit_C20.py      (exit 1 = violation reproduced)
"""
import sys
import warnings

warnings.filterwarnings('ignore')

import numpy as np

import jesse.helpers as jh
from jesse import research
from jesse.strategies import Strategy

T0 = 1609459200000
SNAP = {}


def make_candles(n: int) -> np.ndarray:
    rng = np.random.RandomState(0)
    out = np.zeros((n, 6))
    p = 100.0
    for i in range(n):
        o = p
        c = o + rng.uniform(-1, 1)
        out[i] = [T0 + i * 60_000, o, c, max(o, c) + 0.3, min(o, c) - 0.3, 10 + i]
        p = c
    return out


class Idle(Strategy):
    """never trades; copies the candle store when the session ends"""

    def should_long(self): return False

    def should_short(self): return False

    def go_long(self): pass

    def go_short(self): pass

    def should_cancel_entry(self): return False

    def terminate(self):
        from jesse.store import store
        SNAP.clear()
        for k, arr in store.candles.storage.items():
            SNAP[k] = arr[:].copy()
        SNAP['strategy-view-1m'] = self.get_candles('Sandbox', 'BTC-USDT', '1m').copy()


def run(candles: np.ndarray, fast: bool) -> dict:
    jh.CACHED_CONFIG.clear()
    config = {
        'starting_balance': 10_000, 'fee': 0, 'type': 'futures', 'futures_leverage': 2,
        'futures_leverage_mode': 'cross', 'exchange': 'Sandbox', 'warm_up_candles': 0,
    }
    routes = [{'exchange': 'Sandbox', 'strategy': Idle, 'symbol': 'BTC-USDT', 'timeframe': '5m'}]
    research.backtest(
        config, routes, [],
        {'Sandbox-BTC-USDT': {'exchange': 'Sandbox', 'symbol': 'BTC-USDT', 'candles': candles}},
        fast_mode=fast,
    )
    return {k: v.copy() for k, v in SNAP.items()}


def minutes(arr: np.ndarray) -> list:
    return [int((t - T0) // 60_000) for t in arr[:, 0]]


def strictly_increasing(arr: np.ndarray) -> bool:
    return bool(np.all(np.diff(arr[:, 0]) > 0))


def main() -> int:
    base = make_candles(20)

    # (a) REPEATED candle: minute 6 is delivered twice (rows 6 and 7), e.g. two fetched ranges
    #     concatenated with an inclusive boundary. Rows 0 and 1 are one minute apart -> accepted.
    repeated = np.vstack((base[:7], base[6:7], base[7:19]))
    repeated[7, 2] += 0.1  # the second delivery carries an updated close

    # (b) OLDER candle: row 9 carries the timestamp of minute 3
    older = base.copy()
    older[9, 0] = base[3, 0]

    violations = []
    for label, series in (('repeated', repeated), ('older', older)):
        step = run(series.copy(), fast=False)
        fast = run(series.copy(), fast=True)
        k = 'Sandbox-BTC-USDT-1m'
        print(f'--- input with one {label} candle: timestamps (minutes) = {minutes(series)}')
        print(f'    normal simulator  1m store: {minutes(step[k])}  strictly increasing: {strictly_increasing(step[k])}')
        print(f'    fast   simulator  1m store: {minutes(fast[k])}  strictly increasing: {strictly_increasing(fast[k])}')
        print(f'    fast   simulator  strategy.get_candles(1m): strictly increasing: '
              f'{strictly_increasing(fast["strategy-view-1m"])}')
        if not strictly_increasing(step[k]):
            violations.append(f'{label}: normal simulator store not strictly increasing')
        if not strictly_increasing(fast[k]):
            violations.append(
                f'{label}: fast simulator (add_multiple_1m_candles) left the 1m store with timestamps {minutes(fast[k])}'
            )

    if violations:
        print('\nC20 VIOLATED - "The candle store keeps strictly increasing timestamps for every timeframe: ... '
              'one with the timestamp of a stored candle replaces it":')
        for v in violations:
            print('  *', v)
        print('Cause: jesse/store/state_candles.py:CandlesState.add_multiple_1m_candles appends the whole batch '
              '(arr.append_multiple) after looking only at candles[0, 0] / candles[-1, 0]; the order inside the batch '
              'is never checked, and research/backtest.py only validates the spacing of the first two rows.')
        return 1

    print('C20 holds on these inputs')
    return 0


if __name__ == '__main__':
    sys.exit(main())
