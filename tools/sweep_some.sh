#!/bin/bash
# usage: tools/sweep_some.sh <tier> <seed> <check ids...>   - like sweep.sh for a chosen list / order of checks
tier=$1; s=$2; shift 2
cd "$(dirname "$(readlink -f "$0")")/.." || exit 2
[ -n "$VP_RUN_REPO" ] && export VERIF_REPO=$VP_RUN_REPO
for c in "$@"; do
  t0=$(date +%s)
  VERIF_SEED=$s ./check $c --tier $tier > /tmp/sweeps_$$.log 2>&1; rc=$?
  echo "seed=$s $c rc=$rc $(( $(date +%s) - t0 ))s $(grep -c '^VIOLATION' /tmp/sweeps_$$.log) viol $(grep -c '^KNOWN-FINDING' /tmp/sweeps_$$.log) known | $(grep "^$c tier" /tmp/sweeps_$$.log | cut -c1-120)"
  if [ $rc -ne 0 ]; then grep -A2 '^VIOLATION\|HARNESS' /tmp/sweeps_$$.log | head -12; fi
done
rm -f /tmp/sweeps_$$.log
