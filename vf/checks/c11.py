"""C11 - research.backtest is a pure, repeatable function of its arguments (Engine B at process level, with faults).

Alphabet: a base futures session and one variant per argument dimension (other exchange name, spot, leverage, leverage mode,
fee, balance, symbol, timeframe + data route, warm-up, fast mode) plus fault variants (a strategy hook raising at the first /
a middle / the last candle, an order rejected for margin).  Histories: every sequence of up to 1 (quick) / 2 (thorough) earlier
sessions followed by every probe session, each history in its own process forked from a parent that imported jesse but never ran
a session - and WITHOUT the harness's own reset of process-wide state, which is the subject here.  Oracle: the probe's result
(metrics, trace of orders/hooks, trades, balances) equals the result of the same probe in a fresh process; calling it twice gives
equal results; the argument objects are unchanged.
"""
import copy
import itertools
import math
import os

import numpy as np

from .. import core, session as S, progs
from ..core import Violation

ID = 'C11'


def spec(tick, unit, **kw):
    d = {'tick': tick, 'unit': unit, 'side': 'long', 'enter': {'when': 'flat', 'legs': [[1, -1]]}, 'on_open': {'sl': 'all', 'tp': 'all', 'sl_d': 2, 'tp_d': 2}, 'cancel_entry': True,
         'indicator': True, 'shared': True}
    d.update(kw)
    return d


def sessions(emb):
    base, tick, unit = emb
    # gaps (open != previous close) at indices 6, 9, 12 - chunk boundaries of the 3m sessions - and elsewhere: the simulators
    # normalise such opens, which must happen on a private copy of the caller's arrays
    word = ['U1', 'D2w', 'U2w', 'GU', 'U2w', 'D1', 'GD', 'GU', 'D2w', 'GU', 'D1', 'U1']
    rows = S.make_candles([progs.SHAPES['FLAT']] * 3 + progs.shapes(word), base + 30 * tick, tick).tolist()
    bal = 50 * (base + 30 * tick) * unit
    b = {'cfg': {'type': 'futures', 'fee': 0.001, 'leverage': 2, 'mode': 'cross', 'balance': bal}, 'routes': [{'symbol': 'BTC-USDT', 'timeframe': '1m', 'spec': spec(tick, unit)}],
         'candles': {'BTC-USDT': rows}, 'fast': False, 'observe': 1, 'no_hygiene': True}

    def var(**kw):
        c = copy.deepcopy(b)
        for k, v in kw.items():
            if k in ('type', 'fee', 'leverage', 'mode', 'balance', 'exchange', 'warm_up_candles'):
                c['cfg'][k] = v
            else:
                c[k] = v
        return c
    out = {
        'base': b,
        'exchange-name': var(exchange='Binance Perpetual Futures'),
        'spot': var(type='spot', fee=0.0),
        'leverage-5': var(leverage=5),
        'isolated': var(mode='isolated', leverage=50),
        'fee-0': var(fee=0.0),
        'balance-small': var(balance=bal / 40),
        'other-symbol': var(routes=[{'symbol': 'ETH-USDT', 'timeframe': '1m', 'spec': spec(tick, unit)}], candles={'ETH-USDT': rows}),
        'tf-3m-data-15m': var(routes=[{'symbol': 'BTC-USDT', 'timeframe': '3m', 'spec': spec(tick, unit)}], data_routes=[['BTC-USDT', '15m']]),
        'fast': var(fast=True, routes=[{'symbol': 'BTC-USDT', 'timeframe': '3m', 'spec': spec(tick, unit)}]),
        'warmup': var(warmup={'BTC-USDT': S.make_candles([progs.SHAPES['DOJI']] * 15, rows[0][1], tick, t0=S.TS0 - 15 * 60000).tolist()}),
        # the configured number of warm-up candles (what non-sequential indicators are allowed to look back on): 6, against 0 elsewhere
        'warmup-config-6': var(warm_up_candles=6, warmup={'BTC-USDT': S.make_candles([progs.SHAPES['DOJI']] * 6, rows[0][1], tick, t0=S.TS0 - 6 * 60000).tolist()}),
        'short-program': var(routes=[{'symbol': 'BTC-USDT', 'timeframe': '1m', 'spec': spec(tick, unit, side='short', enter={'when': 'flat', 'legs': [[2, 1]]})}]),
        'two-routes': var(routes=[{'symbol': 'BTC-USDT', 'timeframe': '1m', 'spec': spec(tick, unit)}, {'symbol': 'ETH-USDT', 'timeframe': '1m', 'spec': spec(tick, unit, side='short', enter={'when': 'flat', 'legs': [[1, 1]]})}],
                          candles={'BTC-USDT': rows, 'ETH-USDT': rows}),
        # explicit hyperparameters that name only one of the two parameters the strategy declares
        'partial-hyperparameters': var(hyperparameters={'vf_a': 7}, routes=[{'symbol': 'BTC-USDT', 'timeframe': '1m', 'spec': spec(tick, unit, declare_hp=True)}]),
        # faults: these sessions abort part-way through
        'raise-at-open': var(routes=[{'symbol': 'BTC-USDT', 'timeframe': '1m', 'spec': spec(tick, unit, **{'raise': 'on_open_position'})}]),
        'raise-mid': var(routes=[{'symbol': 'BTC-USDT', 'timeframe': '1m', 'spec': spec(tick, unit, enter={'when': {'at': [0]}, 'legs': [[1, 0]]}, on_open={'sl': 'all', 'tp': 'all', 'sl_d': 30, 'tp_d': 30}, **{'raise': {'at': 6}})}]),
        'raise-last': var(routes=[{'symbol': 'BTC-USDT', 'timeframe': '1m', 'spec': spec(tick, unit, enter={'when': {'at': [0]}, 'legs': [[1, 0]]}, on_open={'sl': 'all', 'tp': 'all', 'sl_d': 30, 'tp_d': 30}, **{'raise': {'at': 13}})}]),
        # aborts in the very step that submitted a market order: the order is still waiting in the engine's queue
        'raise-after-entry': var(routes=[{'symbol': 'BTC-USDT', 'timeframe': '1m', 'spec': spec(tick, unit, enter={'when': {'at': [3]}, 'legs': [[1, 0]]}, **{'raise': {'after_at': 3}})}]),
        'margin-reject': var(balance=bal / 400, routes=[{'symbol': 'BTC-USDT', 'timeframe': '1m', 'spec': spec(tick, unit, enter={'when': {'at': [2]}, 'legs': [[5, 0]]})}]),
    }
    return out


def summarise(r):
    """everything observable of one session, ids excluded"""
    def clean(x):
        if isinstance(x, float) and math.isnan(x):
            return 'NaN'
        return x
    m = r['result']['metrics'] if r['result'] else None
    m = {k: clean(v) for k, v in m.items()} if isinstance(m, dict) else m
    e = r['end']
    endsum = None
    if e:
        endsum = {'trades': e['trades'], 'assets': e['assets'], 'liquidations': e['liquidations'], 'daily_balance': e['daily_balance'], 'final_statuses': e['final_statuses']}
    return {'error': r['error'][:2] if r['error'] else None, 'metrics': m, 'trace': core.jsonable(r['trace']), 'end': core.jsonable(endsum)}


def _args_unchanged(keep):
    """compare the live argument objects with the deep copy taken before the call"""
    b, live = keep['before'], keep['live']

    def eq(x, y):
        if isinstance(x, np.ndarray) or isinstance(y, np.ndarray):
            return np.array_equal(np.asarray(x), np.asarray(y))
        if isinstance(x, dict):
            return isinstance(y, dict) and x.keys() == y.keys() and all(eq(x[k], y[k]) for k in x)
        if isinstance(x, (list, tuple)):
            return len(x) == len(y) and all(eq(a, c) for a, c in zip(x, y))
        return x == y
    names = ['config', 'routes', 'data_routes', 'candles', 'warmup_candles', 'hyperparameters']
    out = []
    for nm, x, y in zip(names, b, live):
        if nm == 'routes':
            y = [dict(r, strategy=None) for r in y]
        if not eq(x, y):
            out.append(nm)
    return out


def _history(args):
    """runs in its own forked child: earlier sessions, then the probe twice"""
    names, emb = args
    sess = sessions(emb)
    for n in names[:-1]:
        S.run_session(copy.deepcopy(sess[n]))
    probe = copy.deepcopy(sess[names[-1]])
    keep = {}
    probe['keep_args'] = keep
    r1 = S.run_session(probe)
    mutated = _args_unchanged(keep) if keep else []
    probe2 = copy.deepcopy(sess[names[-1]])
    r2 = S.run_session(probe2)
    # ... and the objects handed to the FIRST call must still be untouched after the second call ran (a call must not keep
    # working on an earlier call's argument objects)
    later = [a for a in (_args_unchanged(keep) if keep else []) if a not in mutated]
    return {'first': summarise(r1), 'second': summarise(r2), 'mutated': mutated, 'mutated_later': later}


def dims(h, emb):
    """argument dimensions in which an earlier session of the history differs from the probe"""
    ss = sessions(emb)
    p = ss[h[-1]]
    out = set()
    for n in h[:-1]:
        e = ss[n]
        for k in ('type', 'fee', 'leverage', 'mode', 'balance', 'exchange', 'warm_up_candles'):
            if e['cfg'].get(k) != p['cfg'].get(k):
                out.add(k)
        if [(r['symbol'], r['timeframe']) for r in e['routes']] != [(r['symbol'], r['timeframe']) for r in p['routes']] or e.get('data_routes') != p.get('data_routes'):
            out.add('routes')
        if bool(e.get('fast')) != bool(p.get('fast')):
            out.add('fast_mode')
        if bool(e.get('warmup')) != bool(p.get('warmup')):
            out.add('warmup')
        if any('raise' in r['spec'] for r in e['routes']) or n == 'margin-reject':
            out.add('earlier_session_aborted')
    return sorted(out)


def diff_dims(a, b):
    out = []
    for k in ('error', 'metrics', 'end', 'trace'):
        if a[k] != b[k]:
            out.append(k)
    return out


def explain(a, b):
    if a['error'] != b['error']:
        return 'error %r vs %r' % (a['error'], b['error'])
    if a['end'] != b['end'] and a['end'] and b['end']:
        for k in a['end']:
            if a['end'][k] != b['end'][k]:
                return 'end.%s: %s vs %s' % (k, str(a['end'][k])[:160], str(b['end'][k])[:160])
    if a['metrics'] != b['metrics']:
        if isinstance(a['metrics'], dict) and isinstance(b['metrics'], dict):
            ks = [k for k in a['metrics'] if a['metrics'].get(k) != b['metrics'].get(k)]
            return 'metrics differ in %s' % ks[:6]
        return 'metrics %s vs %s' % (str(a['metrics'])[:100], str(b['metrics'])[:100])
    for i, (x, y) in enumerate(zip(a['trace'], b['trace'])):
        if x != y:
            return 'trace event %d: %s vs %s' % (i, str(x)[:160], str(y)[:160])
    return 'trace lengths %d vs %d' % (len(a['trace']), len(b['trace']))


def run(ctx):
    cov = ctx.coverage
    emb = ctx.embedding
    names = list(sessions(emb))
    probes = names
    depth = 1 if ctx.quick else 2
    hist = [(p,) for p in probes]
    for d in range(1, depth + 1):
        for pre in itertools.product(names, repeat=d):
            for p in probes:
                hist.append(tuple(pre) + (p,))
    if not ctx.quick:
        # depth 2 in full is 17^3; keep every pair of DIFFERENT earlier sessions before the base-like probes only
        hist = [h for h in hist if len(h) < 3 or (h[-1] in ('base', 'spot', 'fast', 'two-routes') and h[0] != h[1])]
    S.install()
    res = core.pmap_isolated(_history, [(h, emb) for h in hist], timeout=300)
    fresh = {}
    for h, (st, r) in zip(hist, res):
        if st != 'ok':
            raise core.HarnessError('C11 history %s crashed: %s' % (h, r))
        if len(h) == 1:
            fresh[h[0]] = r
    sigs = set()
    for h, (st, r) in zip(hist, res):
        cov['transitions'] += len(h) + 1
        probe = h[-1]
        ref = fresh[probe]['first']
        case = {'history': list(h), 'embedding': list(emb)}
        if r.get('mutated_later'):
            v = Violation('arguments-mutated', {'args': r['mutated_later'], 'by': 'a-later-call'}, case, 'the arguments of one research.backtest call were modified by the NEXT call: %s' % r['mutated_later'])
            ctx.count('violation:' + v.clause)
            if v.sigkey() not in sigs:
                sigs.add(v.sigkey())
                ctx.add(v)
        if r['mutated']:
            v = Violation('arguments-mutated', {'args': r['mutated']}, case, 'research.backtest modified its arguments: %s' % r['mutated'])
            if v.sigkey() not in sigs:
                sigs.add(v.sigkey())
                ctx.add(v)
        d = diff_dims(r['first'], r['second'])
        if d:
            v = Violation('not-repeatable', {'differing_dims': dims(h, emb)}, case, 'the same call twice in a row differs (%s): %s' % (d, explain(r['first'], r['second'])))
            ctx.count('violation:not-repeatable')
            if v.sigkey() not in sigs:
                sigs.add(v.sigkey())
                ctx.add(v)
        if len(h) > 1:
            d = diff_dims(r['first'], ref)
            if d:
                ctx.count('violation:depends-on-history')
                v = Violation('depends-on-history', {'differing_dims': dims(h, emb)}, case,
                              'probe %r after %s differs from the same probe in a fresh process (%s): %s' % (probe, list(h[:-1]), d, explain(r['first'], ref)))
                if v.sigkey() not in sigs:
                    sigs.add(v.sigkey())
                    ctx.add(v)
            else:
                cov['distinct_nontrivial'] += 1
    cov['states'] = len(hist)
    cov['traces_validated_against_impl'] = sum(len(h) + 1 for h in hist)
    cov['evaluations'] = len(hist)
    cov['rule'] = 'every history (earlier sessions x probe) in its own forked process; distinct_nontrivial = histories of length >= 2 whose probe matched the fresh-process result'
    cov['bounds'] = {'sessions': names, 'earlier_sessions_per_history': depth, 'histories': len(hist)}
    ctx.sample({'history': list(hist[len(names) + 3])})
    ctx.sample({'history': list(hist[-1])})
    ctx.assumptions += ['the fresh-process reference is the probe run first in a process forked from a parent that imported jesse but never ran a session',
                        'uuids never enter the comparison: orders are numbered by the monitor, trades list order numbers']


def replay(case, ctx):
    emb = tuple(case.get('embedding') or ctx.embedding)
    h = tuple(case['history'])
    S.install()
    (st, r), (st0, r0) = core.pmap_isolated(_history, [(h, emb), ((h[-1],), emb)])
    out = []
    if r['mutated']:
        out.append(Violation('arguments-mutated', {'args': r['mutated']}, case, 'arguments modified: %s' % r['mutated']))
    if r.get('mutated_later'):
        out.append(Violation('arguments-mutated', {'args': r['mutated_later'], 'by': 'a-later-call'}, case, 'arguments modified by the next call: %s' % r['mutated_later']))
    if diff_dims(r['first'], r['second']):
        out.append(Violation('not-repeatable', {'differing_dims': dims(h, emb)}, case, explain(r['first'], r['second'])))
    if len(h) > 1 and diff_dims(r['first'], r0['first']):
        out.append(Violation('depends-on-history', {'differing_dims': dims(h, emb)}, case, explain(r['first'], r0['first'])))
    return out
