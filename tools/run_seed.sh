#!/bin/bash
# usage: tools/run_seed.sh <seed-name> <PROPERTY> [tier]  - applies the patch to /repo, runs the check, reverts
name=$1; prop=$2; tier=${3:-quick}
cd /repo && git diff --quiet || { echo "/repo dirty"; exit 2; }
git -C /repo apply /verif/seeded/$name/patch.diff || { echo "patch does not apply"; exit 2; }
cd /verif; ./check $prop --tier $tier > /verif/seeded/$name/check_$prop.log 2>&1; rc=$?
git -C /repo checkout -- .
echo "$name $prop rc=$rc $(grep -c '^VIOLATION' /verif/seeded/$name/check_$prop.log) violation line(s)"; grep -A2 '^VIOLATION' /verif/seeded/$name/check_$prop.log | head -6
