"""
C05 audit (second round) - Order lifecycle: one terminal transition, idempotent execute/cancel.

Counterexample: Order.execute_partially() has no "already final" guard (Order.execute and
Order.cancel have one).  A partial-fill event delivered for an order that is already
EXECUTED (or CANCELED)
  * takes the order out of its final state (status becomes 'PARTIALLY FILLED'),
  * moves the position a second time and charges the fee a second time,
  * adds a second record to the trade, and
  * re-arms Order.execute(): the next execute() runs in full again (third position change,
    the order object is appended to the trade's order list a second time).
Order.queue() is unguarded in the same way (CANCELED -> QUEUED -> resubmit() -> ACTIVE -> execute()).

The operation history is driven on the real model objects of a running sandbox session
(research.backtest), nothing in jesse is modified or patched.

exit 1 = violation reproduced, exit 0 = not reproduced.
"""
import sys
import warnings

warnings.filterwarnings('ignore')

import numpy as np
import jesse.helpers as jh
from jesse import research
from jesse.strategies import Strategy

T0 = 1609459200000
FINDINGS = []


def candles(n=6, price=100.0):
    return np.array([[T0 + i * 60_000, price, price, price, price, 10.0] for i in range(n)], dtype=float)


def snapshot(ex, pos, trade):
    return {
        'assets': dict(ex.assets),
        'available_margin': round(ex.available_margin, 8),
        'position_qty': pos.qty,
        'trade_order_objects': len(trade.orders),
        'trade_buy_records': len(trade.buy_orders),
    }


def make_strategy(kind, out):
    class Driver(Strategy):
        def should_long(self):
            return False

        def go_long(self):
            pass

        def before(self):
            if self.index != 2:
                return
            from jesse.services.api import api
            from jesse.services import selectors
            from jesse.store import store
            drv = api.drivers['Sandbox']
            ex = selectors.get_exchange('Sandbox')
            pos = self.position

            if kind == 'executed_then_partial':
                # submission + execution: the order is now final
                o = drv.market_order('BTC-USDT', 1, 100.0, 'buy', False)
                store.orders.execute_pending_market_orders()
                trade = store.completed_trades.tempt_trades['Sandbox-BTC-USDT']
                s_final = (o.status, snapshot(ex, pos, trade))
                # repeated execute()/cancel(): guarded, nothing moves (this part of the property holds)
                o.execute()
                o.cancel()
                s_guard = (o.status, snapshot(ex, pos, trade))
                # a (late / duplicated) partial-fill event on the final order
                o.execute_partially()
                s_partial = (o.status, snapshot(ex, pos, trade))
                # and the order can now be executed in full once more
                o.execute()
                s_again = (o.status, snapshot(ex, pos, trade))
                out.update(final=s_final, guard=s_guard, partial=s_partial, again=s_again,
                           same_object_twice=sum(1 for x in trade.orders if x is o))
                # leave the session in a state it can finish from
                self._c05_order = o

            elif kind == 'cancelled_then_partial':
                o = drv.limit_order('BTC-USDT', 1, 90.0, 'buy', False)
                o.cancel()
                trade = store.completed_trades._get_current_trade('Sandbox', 'BTC-USDT')
                s_final = (o.status, snapshot(ex, pos, trade))
                o.execute()  # guarded
                s_guard = (o.status, snapshot(ex, pos, trade))
                o.filled_qty = 0.4
                o.execute_partially()
                trade = store.completed_trades.tempt_trades['Sandbox-BTC-USDT']
                s_partial = (o.status, snapshot(ex, pos, trade))
                out.update(final=s_final, guard=s_guard, partial=s_partial)

    return Driver


def session(kind, typ):
    out = {}
    jh.CACHED_CONFIG.clear()
    cfg = {'starting_balance': 100_000, 'fee': 0.001, 'type': typ, 'futures_leverage': 10,
           'futures_leverage_mode': 'cross', 'exchange': 'Sandbox', 'warm_up_candles': 0}
    routes = [{'exchange': 'Sandbox', 'strategy': make_strategy(kind, out), 'symbol': 'BTC-USDT', 'timeframe': '1m'}]
    cd = {'Sandbox-BTC-USDT': {'exchange': 'Sandbox', 'symbol': 'BTC-USDT', 'candles': candles()}}
    try:
        research.backtest(cfg, routes, [], cd)
    except Exception as e:  # the session may not be able to finish cleanly after the corruption; the record is already taken
        out['session_exception'] = f'{type(e).__name__}: {e}'
    return out


def main():
    for typ in ('futures', 'spot'):
        r = session('executed_then_partial', typ)
        if not r:
            continue
        st_final, snap_final = r['final']
        st_guard, snap_guard = r['guard']
        st_partial, snap_partial = r['partial']
        st_again, snap_again = r['again']
        assert st_final == 'EXECUTED'
        if (st_guard, snap_guard) != (st_final, snap_final):
            FINDINGS.append(f'[{typ}] repeated execute()/cancel() on an EXECUTED order changed state: {snap_final} -> {snap_guard}')
        if st_partial != st_final or snap_partial != snap_final:
            FINDINGS.append(
                f'[{typ}] execute_partially() on an EXECUTED order: status {st_final!r} -> {st_partial!r}; '
                f'position {snap_final["position_qty"]} -> {snap_partial["position_qty"]}; '
                f'assets {snap_final["assets"]} -> {snap_partial["assets"]}; '
                f'trade buy records {snap_final["trade_buy_records"]} -> {snap_partial["trade_buy_records"]}')
        if snap_again != snap_partial or r['same_object_twice'] != 1:
            FINDINGS.append(
                f'[{typ}] ... after which execute() runs in full a second time: status {st_again!r}; '
                f'position {snap_partial["position_qty"]} -> {snap_again["position_qty"]}; '
                f'assets -> {snap_again["assets"]}; the same Order object is listed {r["same_object_twice"]}x in the trade')

    r = session('cancelled_then_partial', 'futures')
    if r:
        st_final, snap_final = r['final']
        st_partial, snap_partial = r['partial']
        assert st_final == 'CANCELED'
        if st_partial != st_final or snap_partial != snap_final:
            FINDINGS.append(
                f'[futures] execute_partially() on a CANCELED order: status {st_final!r} -> {st_partial!r}; '
                f'position {snap_final["position_qty"]} -> {snap_partial["position_qty"]}; '
                f'assets {snap_final["assets"]} -> {snap_partial["assets"]}; '
                f'trade buy records {snap_final["trade_buy_records"]} -> {snap_partial["trade_buy_records"]}')

    if FINDINGS:
        print('C05 VIOLATED: an order that is already final changes state and moves balances/position/trade records again')
        for f in FINDINGS:
            print(' -', f)
        print('clause: "Every order goes at most once from active to either executed or cancelled and never changes '
              'afterwards; executing or cancelling an order that is already final has no effect on balances, positions, '
              'margin or trade records ... every executed order is recorded in exactly one trade"')
        print('where : jesse/models/Order.py:Order.execute_partially (no is_canceled/is_executed guard, unlike execute/cancel)')
        return 1
    print('C05 holds on the probed histories')
    return 0


if __name__ == '__main__':
    sys.exit(main())
